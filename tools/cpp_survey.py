#!/usr/bin/env python3
"""Development aid: run the C++ full-codec exploration once for all properties and print a key histogram."""
import collections
import sys
import os
sys.path.insert(0, os.path.dirname(os.path.dirname(os.path.abspath(__file__))))
from vf import run, cppfull, toolchain, universe as U


class SurveyCtx(run.Ctx):
    pass


def main():
    tier = sys.argv[1] if len(sys.argv) > 1 else 'quick'
    levels = tuple(int(x) for x in sys.argv[2].split(',')) if len(sys.argv) > 2 else (1, 2, 3)
    toolchain.setup_repo()
    ctx = SurveyCtx('ALL', tier, 0)
    props = ('C03', 'C04', 'C05', 'C18', 'C19')
    states = list(U.all_states(tier, 0, levels=levels, coarse=True))
    jobs = [(b, tier, props, 0, ('overfill', 'clear')) for b in U.batches(states, cppfull.CPP_BATCH)]
    hist = collections.Counter()
    first = {}
    rejected = []
    for res in ctx.pmap(cppfull.judge_batch, jobs):
        if 'harness_error' in res:
            print(res['harness_error'])
            return 2
        rejected += res['rejected']
        for pid, key, art in res['viol']:
            hist[(pid, key)] += 1
            if art is not None and (pid, key) not in first:
                first[(pid, key)] = art
    ctx.close()
    print('states', len(states), 'rejected', len(rejected))
    for r in rejected[:5]:
        print('REJECTED', r[0], r[1], r[2][:300])
    byroot = collections.Counter()
    for (pid, key), n in hist.items():
        byroot[(pid, '|'.join(key.split('|')[:3]))] += n
    for k, n in byroot.most_common(80):
        print(n, k)
    import json
    json.dump({'%s %s' % k: first[k] for k in first}, open('/tmp/cpp_survey.json', 'w'), indent=1, default=str)


if __name__ == '__main__':
    sys.exit(main())
