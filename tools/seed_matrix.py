#!/usr/bin/env python3
"""Runs every seeded change against its property's quick check (plus extra checks given as id:Cxx,Cyy)
through tools/seed_run.sh and records the outcome in seeded/<id>/meta.json.
usage: tools/seed_matrix.py [seed ids...]      (default: all, skipping seeds that already have a result unless --force)"""
import json
import os
import subprocess
import sys

HERE = os.path.dirname(os.path.dirname(os.path.abspath(__file__)))
EXTRA = {'C03_3': ['C05'], 'C03_4': ['C01'], 'C04_4': ['C03', 'C05'], 'C19_1': ['C01'], 'C19_2': ['C01'], 'C19_4': ['C03'],
         'C05_1': ['C03'], 'C05_3': ['C03'], 'C05_4': ['C03', 'C04'], 'C10_7': ['C11'], 'C03_5': ['C07'], 'C05_6': ['C03'], 'C03_6': ['C05'], 'C04_5': ['C03', 'C05'], 'C04_7': ['C08'], 'C08_6': ['C16', 'C04'], 'C08_7': ['C04'], 'C08_5': ['C09'], 'C04_6': ['C01', 'C02'], 'C17_3': ['C15']}


def main():
    args = [a for a in sys.argv[1:] if not a.startswith('--')]
    force = '--force' in sys.argv
    ids = args or sorted(os.listdir(os.path.join(HERE, 'seeded')))
    for sid in ids:
        d = os.path.join(HERE, 'seeded', sid)
        mp = os.path.join(d, 'meta.json')
        meta = json.load(open(mp))
        if meta.get('detection') and not force:
            continue
        checks = [meta['property']] + EXTRA.get(sid, [])
        p = subprocess.run([os.path.join(HERE, 'tools', 'seed_run.sh'), d] + checks, stdout=subprocess.PIPE,
                           stderr=subprocess.STDOUT)
        det = {}
        for line in p.stdout.decode().splitlines():
            parts = line.split()
            if len(parts) >= 4 and parts[1] in checks:
                det[parts[1]] = {'exit': int(parts[2].split('=')[1]), 'violation_keys': int(parts[3].split('=')[1]),
                                 'first_key': ' '.join(parts[4:])[:200]}
        meta['detection'] = det
        meta['ran'] = 'tools/seed_run.sh seeded/%s %s (scratch worktree of /repo HEAD + patch, VERIF_REPO, quick tier)' % (
            sid, ' '.join(checks))
        json.dump(meta, open(mp, 'w'), indent=1)
        print(sid, {k: (v['exit'], v['violation_keys']) for k, v in det.items()}, flush=True)


if __name__ == '__main__':
    main()
