#!/bin/bash
# usage: tools/sweep.sh <log> <tier> <seed> <Cnn>...   runs the checks one after another against /repo, evidence and replays
# go to scratch directories (the committed evidence is left alone); one summary line per check in <log>.
log="$1"; tier="$2"; seed="$3"; shift 3
cd /verif
for c in "$@"; do
  t0=$(date +%s)
  out=$(VERIF_SEED=$seed VERIF_EVIDENCE_DIR=/tmp/ev_sweep_${tier}_$seed VERIF_REPLAY_DIR=/tmp/rp_sweep_${tier}_$seed /venv/bin/python -m vf.run "$c" --tier "$tier" 2>&1)
  rc=$?
  echo "$c tier=$tier seed=$seed exit=$rc $(( $(date +%s) - t0 ))s $(echo "$out" | grep -c '^VIOLATION') violations $(echo "$out" | grep -c '^HARNESS') harness | $(echo "$out" | grep "^$c $tier" | cut -c1-200)" >> "$log"
  echo "$out" | grep -E '^(VIOLATION|HARNESS)' | head -5 >> "$log"
done
