#!/usr/bin/env python3
"""Regenerates /verif/MANIFEST.json from the table below (kept valid at all times)."""
import json
import os

HERE = os.path.dirname(os.path.dirname(os.path.abspath(__file__)))
PY = '/venv/bin/python'

# id -> (engine, category, technique, level text, level note, design ref)
CHECKS = {
    'C01': ('SSE', 'model_checking',
            'bounded exhaustive schema-state x value exploration of the real Python codec against a reference encoder',
            'Every struct/union state of the stated alphabets and levels, every value of the bounded value universe and both '
            'byte orders are run through prophyc --python_out, import, the public API and encode(); bytes are compared with an '
            'independent reference model of docs/encoding.rst. Exhaustive within the bounds; nothing is sampled.',
            'Trusted: the reference model (bound to the documentation by reproducing all worked examples of docs/encoding.rst '
            'on every run); the small-scope hypothesis for member sequences longer than the bound.', '4 C01'),
    'C02': ('SSE', 'model_checking',
            'bounded exhaustive exploration: decode(encode(v)) on fresh and used targets for every state x value x byte order',
            'Same product as C01; for every case decode() of the message\'s own (and the canonical) encoding into a fresh and '
            'into a previously used message must return the input length, reproduce the value tree field for field and '
            're-encode to the same bytes.',
            'Greedy tails that do not end on the message alignment are excluded as the property states; reference model only '
            'supplies the value tree and the canonical bytes.', '4 C02'),
}

NOT_APPLICABLE = []


def main():
    checks = []
    for pid in sorted(CHECKS):
        engine, cat, tech, text, note, ref = CHECKS[pid]
        checks.append({
            'property_id': pid,
            'quick_cmd': '%s -m vf.run %s --tier quick' % (PY, pid),
            'thorough_cmd': '%s -m vf.run %s --tier thorough' % (PY, pid),
            'evidence_file': '/verif/evidence/%s.json' % pid,
            'replay_cmd_template': '%s -m vf.replay {path}' % PY,
            'engine': engine,
            'level_claimed': {'category': cat, 'text': text, 'design_ref': 'DESIGN.md section ' + ref},
            'level_note': note,
            'technique': tech,
        })
    props = [json.loads(l)['id'] for l in open(os.path.join(HERE, 'properties.jsonl'))]
    na = list(NOT_APPLICABLE)
    claimed = set(CHECKS)
    listed = set(x['property_id'] for x in na)
    for p in props:
        if p not in claimed and p not in listed:
            na.append({'property_id': p, 'reason': 'check under construction in this session; not yet claimed '
                                                   '(the design decides it by bounded exhaustive exploration, see DESIGN.md section 4)'})
    manifest = {
        'version': 1,
        'setup_cmd': '%s -m vf.setup' % PY,
        'hooks': {
            'guard': 'PROPHY_VERIF',
            'enable': 'no source hooks are needed: every check observes public API, generated artefacts and process behaviour; '
                      'PROPHY_VERIF is reserved and unused',
            'baseline_off_cmd': 'cd /repo && /venv/bin/python -m pytest -ra -q -p no:cacheprovider --timeout=900 '
                                '--continue-on-collection-errors',
            'source_commits': [],
            'add_only': True,
        },
        'engines': [
            {'name': 'SSE', 'path': 'vf/sse.py', 'serves_properties': ['C01', 'C02', 'C03', 'C04', 'C05', 'C08', 'C09', 'C12', 'C17', 'C18', 'C19'],
             'kind_free_text': 'schema-state explorer: BFS over member sequences, every state materialised through prophyc and '
                               'checked for every value of a bounded value universe'},
        ],
        'checks': checks,
        'not_applicable': na,
        'notes': 'Checks honour VERIF_SEED, VERIF_TIER, VERIF_REPO (tree under test, default /repo) and VERIF_WORKERS. '
                 'Exit 0 held / 1 VIOLATION / 2 HARNESS-ERROR. Known findings: known_findings.json.',
    }
    with open(os.path.join(HERE, 'MANIFEST.json'), 'w') as f:
        json.dump(manifest, f, indent=1)
        f.write('\n')


if __name__ == '__main__':
    main()
