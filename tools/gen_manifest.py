#!/usr/bin/env python3
"""Regenerates /verif/MANIFEST.json from the table below (kept valid at all times)."""
import json
import os

HERE = os.path.dirname(os.path.dirname(os.path.abspath(__file__)))
PY = '/venv/bin/python'

# id -> (engine, category, technique, level text, level note, design ref)
CHECKS = {
    'C01': ('SSE', 'model_checking',
            'bounded exhaustive schema-state x value exploration of the real Python codec against a reference encoder',
            'Every struct/union state of the stated alphabets and levels, every value of the bounded value universe and both '
            'byte orders are run through prophyc --python_out, import, the public API and encode(); bytes are compared with an '
            'independent reference model of docs/encoding.rst. Exhaustive within the bounds; nothing is sampled.',
            'Trusted: the reference model (bound to the documentation by reproducing all worked examples of docs/encoding.rst '
            'on every run); the small-scope hypothesis for member sequences longer than the bound.', '4 C01'),
    'C02': ('SSE', 'model_checking',
            'bounded exhaustive exploration: decode(encode(v)) on fresh and used targets for every state x value x byte order',
            'Same product as C01; for every case decode() of the message\'s own (and the canonical) encoding into a fresh and '
            'into a previously used message must return the input length, reproduce the value tree field for field and '
            're-encode to the same bytes.',
            'Greedy tails that do not end on the message alignment are excluded as the property states; reference model only '
            'supplies the value tree and the canonical bytes.', '4 C02'),
    'C03': ('SSE+CPP', 'model_checking',
            'bounded exhaustive schema-state x value x endianness exploration of the compiled C++ full codec under ASan+UBSan',
            'Every state of the C++ universe is compiled (prophyc --cpp_full_out + shipped headers, clang++ ASan+UBSan) into a '
            'driver; the canonical bytes of every value are decoded in little, big and native order and re-encoded; decode must '
            'succeed and the bytes must be identical. Exhaustive within the stated bounds. The same value is also assigned to a C++ object through its public members (generated builders fed a wire-independent word stream) and its encoding must be the documented bytes; every value is additionally decoded into the object that just held the previous value and must give the fresh-object result.',
            'Canonical bytes come from the reference model (C01 ties the Python codec to the same bytes). x86-64, clang 14.',
            '4 C03'),
    'C04': ('SSE', 'model_checking',
            'bounded exhaustive comparison of prophyc model nodes, Python class statics, C++ constants and fixed-type '
            'encoding lengths with a reference layout, over all states and all dependency orders of small schemas',
            'For every struct/union/typedef of every explored state: model byte_size/alignment/kind and per-member padding '
            'markers, Python _SIZE/_ALIGNMENT/_DYNAMIC/_UNLIMITED, C++ encoded_byte_size and the length of every encoding of a '
            'fixed type equal the reference layout; all linear extensions of the definition order give the same layout.',
            'Reference layout trusted as in C01; raw sizeof/offsetof are compared against the same layout by C08.', '4 C04'),
    'C05': ('SSE+CPP', 'model_checking',
            'bounded exhaustive exploration of get_byte_size / encode(void*) / encode() agreement under ASan with canary arenas',
            'For every state x value x {as decoded, limited vectors over-filled, arrays cleared/optionals reset} x {little, big}: '
            'get_byte_size() equals the count returned by the pointer encode (measured in a canary-framed arena, then in an '
            'exact-size heap buffer under ASan) and the vector length, and encoded_byte_size for fixed types. Values reach the C++ object by decode, by assignment through public members, and as the default-constructed object; limited vectors are overfilled, arrays cleared, optionals reset.',
            'Values reach the C++ object by decoding canonical bytes, so states a decode cannot produce are reached only '
            'through the listed mutations.', '4 C05'),
    'C06': ('FE', 'fault_enumeration',
            'exhaustive single-fault (thorough: double-fault) enumeration over valid encodings plus all short byte strings, '
            'on the real Python decoder with a deterministic call budget',
            'From every valid encoding of the fault universe (all codec cells, a level-1 core, sampled level 2/3; both byte '
            'orders): every proper prefix, extensions, every control word replaced by 13+ boundary values, every byte xor 01 / '
            'xor 80 / FF; plus all strings of length <= 6 (8) over a 5-byte alphabet for 23 small schemas. decode() must return '
            'or raise ProphyError within 4x the Python-call count of the largest valid decode; returned messages must encode '
            'and re-decode to a fixpoint; tracemalloc bounds allocation on large control values. Thirteen hand-written descriptors (sizer shift, member-less structs, struct pairs sharing one array or bytes type object) get a layout-free menu (every prefix, every 1/2/4-byte word at every offset x boundary values) and the runtime element bound as a third oracle.',
            'Promptness is measured in Python-level calls (sys.setprofile), not wall time; memory is measured on control-word '
            'faults only.', '4 C06'),
    'C07': ('FE+CPP', 'fault_enumeration',
            'the same exhaustive fault menu fed to the compiled C++ full decoder under ASan+UBSan from exact-size heap buffers',
            'Every input of the C06 menu (little and big endian) is decoded by the driver built from prophyc --cpp_full_out '
            'and the shipped headers: no sanitizer report, allocation through operator new <= 4 KiB + 512 x input length '
            '(single request capped at 1 MiB), and an accepted input must re-encode to exactly its own length. Every valid input is also decoded into an object that already received each other valid input or one of six faulted ones and must give the fresh-object result.',
            'x86-64 / clang 14; the enum-range check reports without aborting so one recorded finding does not hide others.',
            '4 C07'),
    'C08': ('SSE+RAW', 'model_checking',
            'bounded exhaustive comparison of g++ offsetof/sizeof/alignof of every generated raw struct, part and union '
            'with reference wire offsets',
            'Every struct/union of every explored state is generated with --cpp_out and a table program prints sizeof, alignof '
            'and offsetof of every member, has_ flag, counter, discriminator, arm and partN member; all must equal the '
            'reference layout (offsets inside partN relative to the part).', 'GCC x86-64 ABI only (as the property states).',
            '4 C08'),
    'C09': ('SSE+RAW', 'model_checking',
            'bounded exhaustive schema-state x value exploration of prophy::swap on big-endian encodings under ASan with canaries',
            'For every state x value the big-endian canonical bytes are placed at an 8-aligned address in an exact, canary-'
            'framed heap block; after prophy::swap<T> the block must hold the little-endian canonical bytes, canaries intact, '
            'and the returned pointer must be start + aligned length (greedy tail: prefix converted, member address returned).',
            'little-endian host; array lengths residue-complete mod 8 so unaligned dynamic ends precede blocks of every alignment.',
            '4 C09'),
    'C10': ('AHE', 'model_checking',
            'explicit-state BFS over API operation sequences on real message objects against a plain dict/list model',
            'Breadth-first search over the operation alphabet (all field kinds, good, out-of-range and wrongly typed '
            'arguments) on a zoo of small messages; each state is reached by replaying its history on a fresh object, sparse '
            'and dense; every transition compares outcome class, observation, encode bytes, decode round trip and str() with '
            'the reference model. Depth 3 (quick) / 4-5 (thorough), deduplicated on canonical states. Every transition is run three ways: sparse, dense, and on a handle fetched before the message is read again.',
            'The zoo groups interacting fields in small messages (operations on unrelated fields commute); wrongly typed '
            'indices are outside the alphabet.', '4 C10'),
    'C11': ('AHE', 'model_checking',
            'exhaustive product of ordered value pairs x every single follow-up mutation, sparse and dense, on real objects',
            'For every composite-kind zoo message: all ordered pairs (a, b) of the value universe, b.copy_from(a) must give '
            'equal observations and encodings and leave a unchanged; then every accepted single operation of the alphabet on '
            'either side must leave the other untouched; same for elements copied by extend() (array, slice and list arguments).',
            'History length 2 over a full product; deeper aliasing that needs two mutations is not explored.', '4 C11'),
    'C12': ('SSE+ME', 'model_checking',
            'bounded exhaustive realisation of every accepted schema state by all back-ends, plus exhaustive enumeration of '
            'one-edit rule breakers over the documented rule catalogue',
            'Positive: every state of the schema universe goes through prophyc with all three back-ends; the generated module '
            'must import and <schema>.ppf.cpp / <schema>.pp.cpp must pass g++ -fsyntax-only against the shipped headers. '
            'Negative: every documented composability rule x element types (direct, nested, typedef, typedef of typedef) x '
            'array forms x positions (236 schemas); prophyc must refuse each with a ProphycError diagnostic. Every rule breaker is also compiled as the second input of a run whose first file uses the same names harmlessly.',
            'The rule catalogue is exactly the list in the property statement; g++ syntax check stands for compilation.',
            '4 C12'),
    'C13': ('ME', 'fault_enumeration',
            'exhaustive single-edit (token / element / attribute / prefix) enumeration over base inputs, all short token '
            'strings, all digraphs of type references, patch-rule and option products, each run under a deterministic work budget',
            'Every single-token deletion, duplication, swap and replacement and every prefix of 8 base .prophy texts; all token '
            'strings up to length 3 (4); isar XML with every element / attribute removed, emptied or garbled and truncated; all '
            'digraphs of references between <= 3 typedef/struct/union definitions; every patch rule x arity x present/absent '
            'node and member; include errors; option subsets of size <= 3. prophyc.main must return, raise ProphycError / a '
            'designed plain Exception / SystemExit, within 5 x base + 100000 function starts and loop iterations '
            '(sys.monitoring). Each chunk runs in its own process, so an interpreter crash is attributed to its input. After every successful run each requested output file must exist, be written by that run and be non-empty; all ordered selections of the output options x front-end x one or two inputs are part of the option product.',
            'Only the exception classes the property lists (and subclasses) count as internal; other classes are tallied.',
            '4 C13'),
    'C14': ('EE', 'model_checking',
            'exhaustive enumeration of expression trees up to 3 operators with an own integer evaluator; every site and back-end observed',
            'All trees with <= 3 operators over decimal / octal / hex literals and names of earlier constants, enumerators and an '
            'included constant, rendered with minimal and full parentheses; each is used as constant, enumerator, array size and '
            'discriminator; model node values, generated Python values (type int) and encodings sizes, compiled C++ constants '
            '(raw and full headers), prophyc.calc and the isar front-end must all give the value of integer arithmetic under '
            'the grammar\'s precedence.',
            'Domain restricted as the property states: division with non-negative operands and non-zero divisor; shift counts 0..3.',
            '4 C14'),
    'C15': ('PE', 'model_checking',
            'exhaustive enumeration of definition sets (all kind assignments x all acyclic expressible dependency sets, <= 4 '
            'nodes) x all input permutation classes through the real isar front-end',
            'For every set: prophyc --isar on every permutation class of the XML elements; the output must be a permutation of '
            'the definitions with every dependency (type reference, array-size constant, constant / enumerator in an expression, '
            'discriminator) before its dependent; the generated module must import; layouts and constants must equal the '
            'reference for every order.', 'sack input is not exercised (isar is the order-free front-end the property names first).',
            '4 C15'),
    'C16': ('PE', 'model_checking',
            'exhaustive enumeration of dependency-respecting partitions of base schemas into <= 3 files x include lists x '
            'directory / working-directory arrangements',
            'Every partition is compiled in five arrangements (same dir, one / two -I dirs, other cwd with absolute paths, parent '
            'cwd with relative paths); every generated module must import; constants, enumerators, layouts and encodings over '
            'V(T) must equal the single-file build and the reference model; every input file is opened exactly once (audit '
            'hook); a missing and a cyclic include variant of every partition must be refused with a diagnostic.',
            '8 base schemas of 3-5 declarations.', '4 C16'),
    'C17': ('SSE', 'model_checking',
            'bounded exhaustive schema-state x value comparison of the prophy and isar (+patch) front-ends, and exhaustive patch-rule cases',
            'Every state of the isar universe is rendered as prophy text and as isar XML (+ patch rules for greedy / bytes); '
            'model layouts of every type and the bytes of both generated Python codecs for every value must agree. Patch: every '
            'rule kind applied (result equals the prophy-language equivalent), aimed at an absent message (ignored, identical '
            'output) and inapplicable (compilation fails).', 'sack front-end not compared.', '4 C17'),
    'C18': ('SSE+CPP', 'model_checking',
            'bounded exhaustive exploration of str() and compiled C++ print() against a reference renderer over every member order',
            'Every permutation of up to 3 (quick) / 4 (thorough) members drawn from bytes, integer, enum, nested struct, array, '
            'optional, union and composite-array members, with integers whose decimal and hex spellings differ and bytes on '
            'both sides of every escape boundary; Python str() and C++ print() must equal the reference rendering. The general '
            'C++ universe is rendered as well. Objects built through public members are printed as well as decoded ones; member names that are sizer names elsewhere in the same file and bytes with format directives are in the text universe.',
            'Floats and bytes containing quote characters are excluded as the property states.', '4 C18'),
    'C19': ('SSE+CPP', 'model_checking',
            'bounded exhaustive span-wise comparison of little- and big-endian encodings (Python and compiled C++)',
            'For every state x value the reference span map labels every byte; big-endian output must be the little-endian '
            'output with each scalar span reversed in place, all other bytes equal and every padding/fill byte zero; C++ '
            'encode() (native) must equal encode<little>() on this host.',
            'Span map from the reference model; cases whose encoding disagrees with the oracle are judged by C01/C03 and '
            'only checked for equal length here.', '4 C19'),
    'C20': ('PE', 'model_checking',
            'exhaustive product of schema sets x hash seeds x working directories x command-line permutations x alone/together, '
            'fresh process each, byte comparison of every output',
            'Six schema sets (single file, diamond includes, independent files, isar, isar + patch, isar include), all four '
            'generators; every output file must be byte-identical across PYTHONHASHSEED, cwd {input dir, parent, unrelated}, every '
            'permutation of the inputs and each file compiled alone.',
            'quick: seeds 0..3; thorough: 0..15.', '4 C20'),
}

NOT_APPLICABLE = []


def main():
    checks = []
    for pid in sorted(CHECKS):
        engine, cat, tech, text, note, ref = CHECKS[pid]
        checks.append({
            'property_id': pid,
            'quick_cmd': '%s -m vf.run %s --tier quick' % (PY, pid),
            'thorough_cmd': '%s -m vf.run %s --tier thorough' % (PY, pid),
            'evidence_file': '/verif/evidence/%s.json' % pid,
            'replay_cmd_template': '%s -m vf.replay {path}' % PY,
            'engine': engine,
            'level_claimed': {'category': cat, 'text': text, 'design_ref': 'DESIGN.md section ' + ref},
            'level_note': note,
            'technique': tech,
        })
    props = [json.loads(l)['id'] for l in open(os.path.join(HERE, 'properties.jsonl'))]
    na = list(NOT_APPLICABLE)
    claimed = set(CHECKS)
    listed = set(x['property_id'] for x in na)
    for p in props:
        if p not in claimed and p not in listed:
            na.append({'property_id': p, 'reason': 'check under construction in this session; not yet claimed '
                                                   '(the design decides it by bounded exhaustive exploration, see DESIGN.md section 4)'})
    manifest = {
        'version': 1,
        'setup_cmd': '%s -m vf.setup' % PY,
        'hooks': {
            'guard': 'PROPHY_VERIF',
            'enable': 'no source hooks are needed: every check observes public API, generated artefacts and process behaviour; '
                      'PROPHY_VERIF is reserved and unused',
            'baseline_off_cmd': 'cd /repo && /venv/bin/python -m pytest -ra -q -p no:cacheprovider --timeout=900 '
                                '--continue-on-collection-errors',
            'source_commits': [],
            'add_only': True,
        },
        'engines': [
            {'name': 'ME', 'path': 'vf/checks/C13.py', 'serves_properties': ['C12', 'C13'],
             'kind_free_text': 'mutation enumerator: every single edit of base inputs at every site, run on the real prophyc.main '
                               'under a deterministic work budget'},
            {'name': 'EE', 'path': 'vf/exprs.py', 'serves_properties': ['C14'],
             'kind_free_text': 'expression enumerator: all trees up to a number of operators, own evaluator and renderers'},
            {'name': 'PE', 'path': 'vf/checks/C15.py', 'serves_properties': ['C15', 'C16', 'C20'],
             'kind_free_text': 'permutation / partition / configuration enumerator: full products of small finite sets'},
            {'name': 'FE', 'path': 'vf/faults.py', 'serves_properties': ['C06', 'C07'],
             'kind_free_text': 'fault enumerator: complete single/double deviation menu from valid encodings (prefixes, '
                               'extensions, control-word and byte substitutions) plus exhaustive short strings'},
            {'name': 'SSE+RAW', 'path': 'vf/cppraw.py', 'serves_properties': ['C08', 'C09'],
             'kind_free_text': 'schema-state explorer on the raw C++ codec: offsetof tables and swap driver built with g++'},
            {'name': 'AHE', 'path': 'vf/ahe.py', 'serves_properties': ['C10', 'C11'],
             'kind_free_text': 'API-history explorer: explicit-state BFS over operation sequences on real objects, states '
                               'reached by replay on fresh objects, canonical-state deduplication'},
            {'name': 'SSE+CPP', 'path': 'vf/cppfull.py', 'serves_properties': ['C03', 'C05', 'C07', 'C18', 'C19'],
             'kind_free_text': 'schema-state explorer driving generated C++ compiled against the shipped headers with '
                               'ASan+UBSan; one driver executable per batch, one case per (state, value, endianness, op)'},
            {'name': 'SSE', 'path': 'vf/sse.py', 'serves_properties': ['C01', 'C02', 'C03', 'C04', 'C05', 'C08', 'C09', 'C12', 'C17', 'C18', 'C19'],
             'kind_free_text': 'schema-state explorer: BFS over member sequences, every state materialised through prophyc and '
                               'checked for every value of a bounded value universe'},
        ],
        'checks': checks,
        'not_applicable': na,
        'notes': 'Checks honour VERIF_SEED, VERIF_TIER, VERIF_REPO (tree under test, default /repo) and VERIF_WORKERS. '
                 'Exit 0 held / 1 VIOLATION / 2 HARNESS-ERROR. Known findings: known_findings.json.',
    }
    with open(os.path.join(HERE, 'MANIFEST.json'), 'w') as f:
        json.dump(manifest, f, indent=1)
        f.write('\n')


if __name__ == '__main__':
    main()
