#!/bin/bash
# usage: tools/confirm_seed.sh <dir with patch.diff + demo.py>   -> prints CONFIRMED or why not
# Confirms in a scratch worktree of /repo HEAD: patch applies, the pinned suite passes with it, the demo fails
# with it and passes without it.  The worktree is removed afterwards.
d="$1"
wt=$(mktemp -d /tmp/cs_XXXXXX)
rmdir "$wt"
git -C /repo worktree add -q --detach "$wt" HEAD || { echo "NO: worktree"; exit 2; }
cleanup() { git -C /repo worktree remove --force "$wt" >/dev/null 2>&1; rm -rf "$wt"; }
trap cleanup EXIT
cd "$wt"
demo="$d/demo.py"; run="/venv/bin/python"
[ -f "$demo" ] || { demo="$d/demo.sh"; run="bash"; }
PYTHONPATH="$wt" $run "$demo" >/tmp/cs_clean.out 2>&1; rc_clean=$?
git apply "$d/patch.diff" || { echo "NO: patch does not apply to HEAD"; exit 1; }
PYTHONPATH="$wt" $run "$demo" >/tmp/cs_mut.out 2>&1; rc_mut=$?
suite=$(/venv/bin/python -m pytest -q -p no:cacheprovider -x 2>&1 | tail -1)
echo "clean demo rc=$rc_clean, mutated demo rc=$rc_mut, suite: $suite"
if [ $rc_clean -eq 0 ] && [ $rc_mut -ne 0 ] && echo "$suite" | grep -q "passed" && ! echo "$suite" | grep -q "failed\|error"; then
  echo CONFIRMED; exit 0
fi
echo "NO"; tail -5 /tmp/cs_clean.out; exit 1
