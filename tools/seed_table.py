#!/usr/bin/env python3
"""Rewrites the seed-vs-check table of DESIGN.md (between the SEED-TABLE markers) from seeded/*/meta.json.
The detection columns come from tools/seed_matrix.py runs; the 'strengthening' column from NOTES below."""
import json
import os
import re

HERE = os.path.dirname(os.path.dirname(os.path.abspath(__file__)))

NOTES = {
    'C01_4': 'whole-batch artefacts (failure needs two parents sharing a nested type)',
    'C02_4': 'level-2 sequences "block after c whose first field is less aligned" added to the quick tier',
    'C03_3': 'C03 reports a vector encode() sized below what the encoder writes',
    'C03_4': 'C03 feeds what the Python codec wrote, not only the documented bytes',
    'C04_4': 'not a C04 matter: statics are right, the emitted encode/decode text is wrong (C03 / C05 report it)',
    'C05_2': 'values built through public members (op build) and default-constructed objects (op fresh): the changed '
             'decoder refused every value of the affected states, so nothing was ever sized; also exposed that the C05 '
             'mutation ops had silently stopped running (harness regression, repaired, vacuity guard added)',
    'C07_4': 'object reuse: every valid input decoded into an object that already received another input (op reuse) '
             'must equal the fresh-object result',
    'C12_2': 'states with the sizer in a middle dynamic part and its array in a later part (symbol extsplit)',
    'C12_4': 'float / double / enum / struct sizers hidden behind one and two typedefs added to the rule breakers',
    'C13_2': 'success half of the property: every requested output file must have been written; ordered selections of '
             'the four output options x front-end x inputs',
    'C19_1': 'C19 made independent of oracle equality (was blind whenever C01 failed)',
    'C19_2': 'fresh / sparsely built messages; `< > < >` on one object',
    'C17_3': 'an ordering matter (dependency scan of parenthesised expressions): C15 reports it, the layouts C17 compares stay equal',
    'C10_5': 'held handles: the array / sub-message is fetched, the message is read again, then the operation runs on the handle',
    'C10_6': 'slice assignment and deletion with negative bounds',
    'C10_7': 'extend with two references to one element that owns nested objects (C11 reported it already)',
    'C18_6': 'structs whose plain members carry names that are sizer names in an earlier struct of the same file; '
             'C++ artefacts carry the whole generated file, replay falls back to it',
    'C18_7': 'bytes values with format directives (%, {, })',
    'C13_5': 'typedef-of-union members and arms among the valid bases; unchanged bases are judged as inputs',
    'C13_7': 'isar sizes / constants / enum values and static patches whose expressions name typedefs, builtin types, '
             'structs, enums, themselves',
    'C06_5': 'unions whose largest arm is a padded struct with a narrow optional, in the fault universe',
    'C06_6': 'hand-written descriptors (sizer shift, structs without members) with a layout-free fault menu and the '
             'runtime element bound as an oracle (found F40 on the way)',
    'C04_6': 'a Python runtime matter: C01 / C02 report it since the universe has structs with two dynamic parts '
             'followed by blocks of different alignment (dyn A, x, dyn B, y)',
    'C04_7': 'the raw header is C08\'s observation point (C04 compares model, Python statics and encoded_byte_size)',
    'C08_6': 'needs an included file: C16 compares the model nodes of the multi-file build with the single-file build',
    'C14_5': 'right shift of negative values admitted to the expression universe (was excluded together with negative division)',
    'C15_5': 'include shadowing family: a file that redefines a struct / constant of a file it includes, every order '
             '(since fix ab80506 the pinned suite rejects this change itself; kept for the record)',
    'C15_6': 'expression forms that start with a literal (2*K, 1 + E_V)',
    'C15_7': 'one name defined twice in one file (isar lists both), every order: each body may only name what stands above it',
    'C16_5': 'arrangement with a library directory and decoy files next to the main file, main file compiled alone '
             '(earlier inputs of the same run otherwise answer from the cache)',
    'C16_6': 'file names equal to the first type they define (Point.prophy defines Point)',
    'C16_7': 'C++ outputs requested too; every generated header must compile on its own',
    'C17_6': 'patch files whose rules are keyed on the new name of a renamed message (both orders), rename + retype chains',
    'C17_7': 'typedefs (one and two levels) of a struct that is dynamic only through a nested dynamic struct',
    'C20_6': 'isar case whose expressions and array sizes mention enumerators of several enums defined after them',
    'C13_8': 'include cycles that close through another spelling of a file (sub/../, ./)',
    'C15_8': 'limited arrays whose limit names an enumerator',
    'C16_8': 'arrangement in which the main file\'s directory is also the first -I entry and nested includes live in a sub directory',
    'C17_9': 'a patched name defined in two inputs of one run: each as when compiled alone',
    'C17_10': 'patch rules applied to the prophy-text front-end, model layout against the equivalent schema',
    'C10_8': 'union with two struct arms in the zoo; the hidden part of a state now carries the stored values, not only the '
             'stored keys: histories that left 0 and 1 in an abandoned arm were merged, and only the 0 one was extended',
    'C06_9': 'hand-written descriptors in which two struct definitions share one array / bytes type object and the blocks '
             'behind it are aligned differently (both definition orders); valid encodings must decode, and to the same bytes',
    'C20_9': 'array size x size2 over enumerators of two enums in a struct that a typedef pulls forward',
    'C20_10': 'two isar inputs that spell an array-size expression alike over different constants',
    'C12_5': 'every rule breaker also as second input of a run whose first file uses the same names harmlessly',
    'C12_7': 'bisection of failing batches capped (the run took hours when nearly every state failed to compile)',
}


def first_sentence(text):
    t = ' '.join(text.split())
    t = re.sub(r'^Mutation:? ?', '', t)
    m = re.match(r'\(([^)]*)\)[:,]? ?(.*)', t)
    where = ''
    if m:
        where, t = m.group(1), m.group(2)
    cut = re.split(r'(?<=[a-z\)\]\'"`0-9])\. |\. Why| Why it breaks|; ', t)[0]
    if len(cut) > 150:
        cut = cut[:147] + '...'
    where = where.replace('prophyc/', '').replace('prophy_cpp/include/prophy/', '').replace('prophy/', '')
    return ('%s: %s' % (where.split(',')[0], cut)) if where else cut


def main():
    rows = []
    for sid in sorted(os.listdir(os.path.join(HERE, 'seeded'))):
        meta = json.load(open(os.path.join(HERE, 'seeded', sid, 'meta.json')))
        det = meta.get('detection') or {}
        caught = [c for c, v in sorted(det.items()) if v.get('exit') == 1 and v.get('violation_keys', 0) > 0]
        missed = [c for c, v in sorted(det.items()) if not (v.get('exit') == 1 and v.get('violation_keys', 0) > 0)]
        own = meta['property']
        if not det:
            status = 'not run'
        else:
            status = ', '.join('%s (%d keys)' % (c, det[c]['violation_keys']) for c in caught) or 'MISSED'
            if missed and caught:
                status += '; silent: ' + ', '.join(missed)
        rows.append('| %s | %s | %s | %s |' % (sid, first_sentence(meta['what_and_needs']).replace('|', '/'), status,
                                              NOTES.get(sid, '-')))
        if det and own not in caught and sid not in ('C04_4', 'C04_6', 'C04_7', 'C08_6', 'C17_3'):
            print('NOTE: %s not caught by its own check %s' % (sid, own))
    table = ('| seed | change | caught by (quick tier; violation class keys) | needed strengthening |\n|---|---|---|---|\n'
             + '\n'.join(rows) + '\n')
    p = os.path.join(HERE, 'DESIGN.md')
    s = open(p).read()
    a, b = '<!-- SEED-TABLE-BEGIN -->\n', '<!-- SEED-TABLE-END -->\n'
    i, j = s.index(a) + len(a), s.index(b)
    open(p, 'w').write(s[:i] + table + s[j:])
    print('%d seeds' % len(rows))


if __name__ == '__main__':
    main()
