#!/usr/bin/env python3
"""usage: tools/save_seeds.py <out dir prefix, e.g. /tmp/out6_> <first new index> <note> <Cnn>...
Copies bug1..3 of each sub-agent output directory into seeded/<Cnn>_<k> with a meta.json (confirmed: pending)."""
import json
import os
import shutil
import sys

prefix, first, note = sys.argv[1], int(sys.argv[2]), sys.argv[3]
for c in sys.argv[4:]:
    k = first
    for i in (1, 2, 3, 4):
        src = '%s%s/bug%d' % (prefix, c, i)
        if not os.path.isdir(src):
            continue
        while os.path.isdir('/verif/seeded/%s_%d' % (c, k)):
            k += 1
        sid = '%s_%d' % (c, k)
        dst = '/verif/seeded/' + sid
        os.makedirs(dst)
        shutil.copy(src + '/patch.diff', dst + '/patch.diff')
        for d in ('demo.py', 'demo.sh'):
            if os.path.exists(src + '/' + d):
                shutil.copy(src + '/' + d, dst + '/' + d)
        notes = open(src + '/notes.txt').read().strip()
        json.dump({'id': sid, 'property': c, 'source': 'independent sub-agent given only the property text and a scratch worktree (%s)' % note,
                   'what_and_needs': notes, 'confirmed': 'pending', 'ported': False}, open(dst + '/meta.json', 'w'), indent=1)
        print(sid)
