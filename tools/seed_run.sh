#!/bin/bash
# usage: tools/seed_run.sh <dir with patch.diff> <Cnn> [<Cnn>...]
# Applies the patch to a scratch worktree of /repo HEAD and runs the quick checks against it (VERIF_REPO),
# so /repo itself is never touched.  Prints one summary line per check; removes the worktree.
d="$1"; shift
wt=$(mktemp -d /tmp/sw_XXXXXX); rmdir "$wt"
git -C /repo worktree add -q --detach "$wt" HEAD || exit 2
trap 'git -C /repo worktree remove --force "$wt" >/dev/null 2>&1; rm -rf "$wt"' EXIT
( cd "$wt" && git apply "$d/patch.diff" ) || { echo "$(basename $d): PATCH DOES NOT APPLY"; exit 2; }
cd /verif
for c in "$@"; do
  out=$(VERIF_REPO="$wt" VERIF_EVIDENCE_DIR=/tmp/seed_evidence VERIF_REPLAY_DIR=/tmp/seed_replays /venv/bin/python -m vf.run "$c" --tier quick 2>&1)
  rc=$?
  nv=$(echo "$out" | grep -c '^VIOLATION')
  key=$(echo "$out" | grep -m1 '  key=' | cut -c1-150)
  echo "$(basename $d) $c exit=$rc violations=$nv $key"
done
