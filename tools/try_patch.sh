#!/bin/bash
# usage: tools/try_patch.sh <patch.diff> <Cnn> [<Cnn>...]   -- applies the patch to /repo, runs the quick checks, reverts
set -u
patch="$1"; shift
cd /repo || exit 2
if [ -n "$(git status --porcelain)" ]; then echo "/repo not clean"; exit 2; fi
if ! git apply "$patch"; then echo "patch does not apply"; exit 2; fi
cd /verif
for c in "$@"; do
  /venv/bin/python -m vf.run "$c" --tier quick 2>&1 | grep -E "^(VIOLATION|KNOWN-FINDING|HARNESS|C[0-9]+ quick)|  key=" | cut -c1-260 | head -12
done
cd /repo && git checkout -- . && git status --porcelain
