"""setup_cmd: verify that the offline tool-chain the checks need is present."""
import os
import shutil
import subprocess
import sys


def main():
    problems = []
    for tool in ('g++', 'clang++-14'):
        if not shutil.which(tool):
            problems.append('missing ' + tool)
    try:
        import ply  # noqa
        import renew  # noqa
    except ImportError as e:
        problems.append(str(e))
    from . import toolchain
    try:
        toolchain.setup_repo()
    except Exception as e:      # noqa
        problems.append(str(e))
    os.makedirs(os.path.join(os.path.dirname(os.path.dirname(os.path.abspath(__file__))), 'evidence'), exist_ok=True)
    if problems:
        print('SETUP-ERROR: ' + '; '.join(problems))
        return 1
    print('setup ok: python %s, repo %s' % (sys.version.split()[0], toolchain.REPO))
    return 0


if __name__ == '__main__':
    sys.exit(main())
