"""Judges of the Python-side schema-state exploration (C01, C02, C19/python)."""
import traceback

from . import schema as S
from . import refmodel as R
from . import universe as U
from . import values as V
from . import toolchain as T
from . import sse
from . import apimodel as A

MAX_ART = 3      # artefacts kept per key per batch


def caps(tier):
    return 64 if tier == 'quick' else 512


def unaligned_greedy_tail(ref, top, spans):
    """The documented exception of C02: an unlimited message whose encoding ends in tail padding."""
    if ref.layout(top).kind != R.K_UNLIMITED or not spans:
        return False
    return spans[-1].role == 'pad:tail'


has_nonfixed_bytes = A.has_nonfixed_bytes


def judge_batch(job):
    states, tier, props, seed = job
    T.setup_repo()
    import prophy
    out = {
        'viol': [],          # (pid, key, artefact)
        'states': 0, 'values': 0, 'exec': 0, 'ops': 0, 'nontrivial': 0, 'capped': 0,
        'rejected': [], 'samples': [], 'ltrans': set(), 'outcomes': {}, 'excluded_greedy': 0,
        'not_judged': 0,
    }
    try:
        prepared, rejected = sse.prepare(states)
    except Exception:       # noqa
        out['harness_error'] = traceback.format_exc()
        return out
    for st, stage, msg in rejected:
        out['rejected'].append((st.key, stage, msg))
    seen_keys = {}

    def viol(pid, key, art):
        k = (pid, key)
        seen_keys[k] = seen_keys.get(k, 0) + 1
        if seen_keys[k] <= MAX_ART:
            out['viol'].append((pid, key, art))
        else:
            out['viol'].append((pid, key, None))

    for prep in prepared:
        ref = prep.ref
        vals_gen = V.Values(ref, tier)
        for st, top in zip(prep.states, prep.tops):
            out['states'] += 1
            out['ltrans'] |= sse.layout_transitions(ref, top)
            cls = getattr(prep.mod, top)
            vals, capped = vals_gen.enumerate(top, caps(tier))
            if capped:
                out['capped'] += 1
            prev_value = None
            # untouched and sparsely built messages (only non-default fields assigned) must encode like fully
            # assigned ones: value states reached from the initial state by fewer operations
            amodel = A.ApiModel(ref)
            extra = []
            if not has_nonfixed_bytes(ref, top):      # recorded finding F11 (C10): unset bytes read ''
                extra.append(('fresh', amodel.to_tree(top, amodel.default(top)), lambda t=top: cls()))
            for v in vals[:8]:
                extra.append(('sparse', v, lambda v=v: A.build_sparse(ref, amodel, top, v, cls())))
            for label, v, make in extra:
                for e in ('<', '>', '<'):
                    exp, spans = ref.encode(top, v, e)
                    out['exec'] += 1
                    if label == 'fresh':
                        continue
                    try:
                        got = make().encode(e)
                    except Exception as ex:     # noqa
                        got = ex
                    if got != exp and 'C01' in props:
                        key = ('py-encode|sparse|raises=%s' % type(got).__name__) if isinstance(got, Exception) else \
                            ('py-encode|sparse|' + sse.diagnose(ref, top, exp, spans, got))
                        viol('C01', key, dict(sse.artefact_for(st, top, ref, prep.defs, v, e, exp,
                                                               b'' if isinstance(got, Exception) else got,
                                                               'sparsely built message encodes differently'), build='sparse'))
            if extra and extra[0][0] == 'fresh':
                # one untouched object encoded in both orders, twice: no state may stick between calls
                v = extra[0][1]
                m = cls()
                outs = []
                for e in ('<', '>', '<', '>'):
                    out['exec'] += 1
                    try:
                        outs.append(m.encode(e))
                    except Exception as ex:     # noqa
                        outs.append(ex)
                for e, got in zip('<><>', outs):
                    exp, spans = ref.encode(top, v, e)
                    if got != exp:
                        if 'C01' in props:
                            key = ('py-encode|fresh|raises=%s' % type(got).__name__) if isinstance(got, Exception) else \
                                ('py-encode|fresh|' + sse.diagnose(ref, top, exp, spans, got))
                            viol('C01', key, dict(sse.artefact_for(st, top, ref, prep.defs, v, e, exp,
                                                                   b'' if isinstance(got, Exception) else got,
                                                                   'untouched message encodes differently'), build='fresh'))
                if 'C19' in props and not any(isinstance(g, Exception) for g in outs):
                    exp, spans = ref.encode(top, v, '<')
                    for le, be in ((outs[0], outs[1]), (outs[2], outs[3]), (outs[2], outs[1])):
                        if len(le) != len(be):
                            viol('C19', 'py|fresh|length', dict(sse.artefact_for(
                                st, top, ref, prep.defs, v, '<>', le, be, 'lengths differ'), build='fresh'))
                        elif R.differs_only_in_padding(spans, exp, le):
                            why = R.scalar_mirror_ok(spans, le, be)
                            if why:
                                viol('C19', 'py|fresh|' + why.split(' at ')[0].split(' .')[0], dict(sse.artefact_for(
                                    st, top, ref, prep.defs, v, '<>', le, be, why), build='fresh'))
            for v in vals:
                out['values'] += 1
                encs = {}
                exps = {}
                judged_ok = True
                for e in '<>':
                    exp, spans = ref.encode(top, v, e)
                    exps[e] = (exp, spans)
                    out['exec'] += 1
                    try:
                        msg = T.build(ref, top, v, cls())
                        got = msg.encode(e)
                        out['ops'] += 2
                    except Exception as ex:     # noqa
                        judged_ok = False
                        key = 'py-encode|raises=%s|%s' % (type(ex).__name__, _shape_key(ref, top, st))
                        if 'C01' in props:
                            viol('C01', key, sse.artefact_for(st, top, ref, prep.defs, v, e, exp, '',
                                                              'encode raised %s: %s' % (type(ex).__name__, ex)))
                        continue
                    encs[e] = got
                    if got != exp:
                        judged_ok = False
                        if 'C01' in props:
                            key = 'py-encode|' + sse.diagnose(ref, top, exp, spans, got)
                            viol('C01', key, sse.artefact_for(st, top, ref, prep.defs, v, e, exp, got,
                                                              'encode differs from the documented bytes'))
                    elif e == '<' and sse.nontrivial(spans):
                        out['nontrivial'] += 1
                if len(out['samples']) < 2 and '<' in encs:
                    out['samples'].append({'state': st.key, 'value': repr(v)[:200], 'little': encs['<'].hex()})
                # ---- C19 (python part)
                if 'C19' in props and len(encs) == 2:
                    le, be = encs['<'], encs['>']
                    if len(le) != len(be):
                        viol('C19', 'py|length', sse.artefact_for(
                            st, top, ref, prep.defs, v, '<>', le, be, 'lengths differ'))
                    elif R.differs_only_in_padding(exps['<'][1], exps['<'][0], le):
                        # the little-endian output has the oracle's layout: the span map applies to both outputs
                        why = R.scalar_mirror_ok(exps['<'][1], le, be)
                        if why:
                            viol('C19', 'py|' + why.split(' at ')[0].split(' .')[0], sse.artefact_for(
                                st, top, ref, prep.defs, v, '<>', le, be, why))
                    else:
                        out['not_judged'] += 1
                # ---- C02
                if 'C02' in props:
                    for e in '<>':
                        if e not in encs:
                            continue
                        exp, spans = exps[e]
                        if unaligned_greedy_tail(ref, top, spans):
                            out['excluded_greedy'] += 1
                            continue
                        inputs = [('own', encs[e])]
                        if encs[e] != exp:
                            inputs.append(('canonical', exp))
                        for label, data in inputs:
                            for target in ('fresh', 'used'):
                                if target == 'used' and prev_value is None:
                                    continue
                                out['exec'] += 1
                                why = _roundtrip(ref, top, cls, v, data, e, prev_value if target == 'used' else None)
                                out['ops'] += 3
                                if why:
                                    key = 'py-decode|%s|%s|%s|%s' % (label, target, why[0], _shape_key(ref, top, st))
                                    viol('C02', key, sse.artefact_for(st, top, ref, prep.defs, v, e, data, '',
                                                                      '%s (%s input, %s target): %s' % (
                                                                          why[0], label, target, why[1])))
                prev_value = v
    # A violation must be replayable on its own.  If the single state does not reproduce it (the failure
    # needs its batch neighbours, e.g. two parents sharing one nested type), ship the whole batch as context.
    import importlib
    fixed = []
    for pid, key, art in out['viol']:
        if art is not None and pid in ('C01', 'C02', 'C19'):
            try:
                mod = importlib.import_module('vf.checks.' + pid)
                if not mod.replay(art):
                    for prep in prepared:
                        for st, top in zip(prep.states, prep.tops):
                            if st.key == art['state']:
                                art = dict(art, defs=S.defs_to_json(prep.defs), schema=S.render_prophy(prep.defs), top=top,
                                           context='whole batch: the failure does not reproduce on the state alone')
            except Exception:       # noqa
                pass
        fixed.append((pid, key, art))
    out['viol'] = fixed
    out['ltrans'] = sorted(out['ltrans'], key=repr)
    return out


def _roundtrip(ref, top, cls, v, data, e, prev):
    """None if decode inverts encode, else (kind, text)."""
    msg = cls()
    try:
        if prev is not None:
            T.build(ref, top, prev, msg)
        n = msg.decode(data, e)
    except Exception as ex:         # noqa
        return ('raises-' + type(ex).__name__, str(ex)[:200])
    if n != len(data):
        return ('consumed', 'decode returned %r for %d bytes' % (n, len(data)))
    try:
        back = T.observe(ref, top, msg)
    except Exception as ex:         # noqa
        return ('observe-raises-' + type(ex).__name__, str(ex)[:200])
    if back != v:
        return ('value', 'decoded %r' % (back,))
    try:
        again = msg.encode(e)
    except Exception as ex:         # noqa
        return ('reencode-raises-' + type(ex).__name__, str(ex)[:200])
    if again != data:
        return ('reencode', 're-encoded %s' % again.hex())
    return None


def _shape_key(ref, top, st):
    """Canonical form of a state: member symbols abstracted to form + type class."""
    r = ref.resolve(top)
    if isinstance(r, S.Union):
        return 'union[' + ','.join(sse.type_class(ref, a.type) for a in r.arms) + ']'
    return 'struct[' + ','.join(sse.member_class(ref, m) for m in r.members) + ']'


def run_sse(ctx, props, levels=(1, 2, 3), cells=True):
    """Drive the exploration for one property and fold results into ctx."""
    from . import docexamples
    from .run import HarnessError
    n, problems = docexamples.selftest(T.REPO)
    if problems:
        raise HarnessError('oracle self-test failed: ' + '; '.join(problems[:3]))
    states = list(U.all_states(ctx.tier, ctx.seed, levels=levels, cells=cells))
    # VERIF_SEED rotates work partition order only
    if ctx.seed:
        k = ctx.seed % max(1, len(states))
        states = states[k:] + states[:k]
    jobs = [(b, ctx.tier, tuple(props), ctx.seed) for b in U.batches(states, sse.BATCH)]
    ltrans = set()
    rejected = []
    total_states = 0
    for res in ctx.pmap(judge_batch, jobs):
        if 'harness_error' in res:
            raise HarnessError(res['harness_error'])
        total_states += res['states']
        ctx.cov['states'] += res['values']
        ctx.cov['transitions'] += res['ops']
        ctx.cov['traces_validated_against_impl'] += res['exec']
        ctx.cov['evaluations'] += res['exec']
        ctx.cov['distinct_nontrivial'] += res['nontrivial']
        ltrans.update(tuple(x) for x in res['ltrans'])
        rejected += res['rejected']
        for s in res['samples']:
            ctx.sample(s)
        for pid, key, art in res['viol']:
            if pid != ctx.pid:
                continue
            ctx.violation_counts[key] = ctx.violation_counts.get(key, 0) + 1
            if art is not None and len(ctx.violations.setdefault(key, [])) < 5:
                ctx.violations[key].append(art)
            else:
                ctx.violations.setdefault(key, [])
        for k in ('capped', 'excluded_greedy', 'not_judged'):
            ctx.cov[k] = ctx.cov.get(k, 0) + res[k]
    # drop keys that ended with no artefact (cannot happen, MAX_ART>=1) -- keep safe
    for key in [k for k, v in ctx.violations.items() if not v]:
        del ctx.violations[key]
    ctx.cov['schema_states'] = total_states
    ctx.cov['layout_transitions_hit'] = len(ltrans)
    ctx.cov['oracle_doc_examples_reproduced'] = n
    ctx.cov['rejected_states'] = len(rejected)
    ctx.cov['rejected_samples'] = [list(r) for r in rejected[:5]]
    if ctx.cov.get('capped'):
        ctx.cov['caps'].append('%d states had their shape product capped at %d values (star + diagonal + '
                               'last-two-dimension pairs kept)' % (ctx.cov['capped'], caps(ctx.tier)))
    ctx.cov['rule'] = (
        'states = (schema state, value) pairs: schema states are all member sequences of the stated alphabets/'
        'levels; values are the full shape product of V(T) (array lengths residue-complete mod 8, optional '
        'absent/present, every arm, every enumerator) with position-coded and extreme scalars. transitions = '
        'API operations executed on real objects (build, encode, decode, re-encode). traces = reference-model '
        'encodings compared with the implementation. non-trivial = little-endian encoding that agrees with the '
        'oracle and holds padding, fill or a counter.')
    if total_states and len(rejected) > total_states * 0.05 + 5:
        raise HarnessError('%d of %d states rejected by prophyc/import: universe is not aimed at valid schemas; '
                           'first: %r' % (len(rejected), total_states, rejected[0]))
    return rejected
