"""API-history explorer (C10): BFS over operation sequences on real message objects.

A state is reached by replaying its history on a fresh object; states are
deduplicated on (reference-model state, hidden stored keys and values of the
implementation).  Every transition is executed twice: sparse (nothing read
between operations) and dense (full read-through after every operation)."""
import traceback

from . import schema as S
from . import refmodel as R
from . import toolchain as T
from . import apimodel as A
from . import values as V

M = S.M


def zoo():
    """name -> (defs, top).  Small messages grouping the fields that interact."""
    E = S.Enum('E', [('E_A', 2), ('E_B', 5), ('E_C', '0x80000001')])
    E0 = S.Enum('E0', [('E0_Z', 0), ('E0_O', 1), ('E0_T', 3)])
    F = S.Struct('F', [M('p', 'u8'), M('q', 'u16')])
    D = S.Struct('D', [M('v', 'u8', S.DYNAMIC)])
    U = S.Union('U', [S.Arm(1, 'u8', 'x'), S.Arm(2, 'F', 'y'), S.Arm(3, 'E', 'z')])
    G = S.Struct('G', [M('o', 'F', S.OPT), M('w', 'u8', S.LIMITED, 2)])
    z = {}
    z['scalars'] = ([E, S.Struct('X', [M('a', 'u8'), M('b', 'i16'), M('f', 'float'), M('e', 'E')])], 'X')
    z['wide'] = ([E0, S.Struct('X', [M('c', 'i64'), M('d', 'double'), M('e', 'E0'), M('u', 'u32')])], 'X')
    z['bytes'] = ([S.Struct('X', [M('b3', 'bytes', S.FIXED, 3), M('bl', 'bytes', S.LIMITED, 3),
                                  M('bd', 'bytes', S.DYNAMIC)])], 'X')
    z['bytes_greedy'] = ([S.Struct('X', [M('a', 'u8'), M('bg', 'bytes', S.GREEDY)])], 'X')
    z['optional'] = ([E0, F, S.Struct('X', [M('ou', 'u8', S.OPT), M('oe', 'E0', S.OPT), M('of', 'F', S.OPT)])], 'X')
    z['union'] = ([E, F, U], 'U')
    z['union_in'] = ([E, F, U, S.Struct('X', [M('u', 'U'), M('ou', 'U', S.OPT)])], 'X')
    z['dynamic'] = ([S.Struct('X', [M('a', 'u16', S.DYNAMIC)])], 'X')
    z['limited'] = ([S.Struct('X', [M('l', 'u8', S.LIMITED, 3), M('t', 'u8')])], 'X')
    z['ext_shared'] = ([S.Struct('X', [M('n', 'u8'), M('x', 'u16', S.EXT, 'n'), M('y', 'u8', S.EXT, 'n')])], 'X')
    z['ext_u8'] = ([S.Struct('X', [M('n', 'u8'), M('x', 'u8', S.EXT, 'n')])], 'X')
    z['fixed'] = ([E, S.Struct('X', [M('fx', 'u16', S.FIXED, 3), M('fe', 'E', S.FIXED, 2)])], 'X')
    z['comp_dynamic'] = ([F, S.Struct('X', [M('fa', 'F', S.DYNAMIC)])], 'X')
    z['comp_limited'] = ([F, S.Struct('X', [M('fl', 'F', S.LIMITED, 2), M('t', 'u8')])], 'X')
    z['comp_fixed_nested'] = ([F, D, S.Struct('X', [M('ff', 'F', S.FIXED, 2), M('d', 'D')])], 'X')
    z['greedy'] = ([S.Struct('X', [M('a', 'u16'), M('g', 'u32', S.GREEDY)])], 'X')
    z['comp_greedy'] = ([F, S.Struct('X', [M('gg', 'F', S.GREEDY)])], 'X')
    z['enum_float_arrays'] = ([E, S.Struct('X', [M('ea', 'E', S.DYNAMIC), M('fa', 'float', S.LIMITED, 2)])], 'X')
    z['nested_opt_array'] = ([F, G, S.Struct('X', [M('g', 'G'), M('ga', 'G', S.DYNAMIC)])], 'X')
    z['union_array'] = ([E, F, U, S.Struct('X', [M('ua', 'U', S.LIMITED, 2)])], 'X')
    # two struct arms: leaving a struct arm for another struct arm and coming back must find it at its defaults
    F2 = S.Struct('F2', [M('r', 'u16'), M('s', 'u8')])
    U2 = S.Union('U2', [S.Arm(1, 'F', 'y'), S.Arm(2, 'F2', 't'), S.Arm(3, 'u8', 'x')])
    z['union_structs'] = ([F, F2, U2], 'U2')
    z['union_structs_in'] = ([F, F2, U2, S.Struct('X', [M('a', 'u8'), M('u', 'U2')])], 'X')
    return z


class Impl(object):
    """Executes operations on a real message."""

    def __init__(self, ref, mod, top, model):
        self.ref, self.mod, self.top, self.model = ref, mod, top, model

    def fresh(self):
        return getattr(self.mod, self.top)()

    def execute(self, msg, op, held=False):
        """Returns outcome name: 'ok' or the exception class name.
        held: the object the operation acts on is fetched first, then the whole message is read (str, encode, the same
        path again) and only then the operation runs on the handle fetched before."""
        import prophy
        try:
            self._execute(msg, op, held)
        except prophy.ProphyError:
            return 'ProphyError'
        except Exception as e:      # noqa
            return type(e).__name__
        return 'ok'

    def _nav(self, msg, path):
        cur = msg
        t = self.top
        for step in path:
            if step[0] in ('f', 'arm'):
                cur = getattr(cur, step[1])
            else:
                cur = cur[step[1]]
        return cur

    def _elem_type(self, path):
        """type name of the elements of the array at path"""
        ref = self.ref
        t = self.top
        f = None
        for step in path:
            r = ref.resolve(t)
            if step[0] == 'f':
                f = [x for x in ref.fields(r.name) if x.name == step[1]][0]
                t = f.type
            elif step[0] == 'arm':
                t = [a for a in r.arms if a.name == step[1]][0].type
        return t

    def _execute(self, msg, op, held=False):
        path, name, args = op
        cur = self._nav(msg, path)
        if cur is None:
            raise AttributeError('absent')
        if held and path:
            for read in (lambda: str(msg), lambda: msg.encode('<'), lambda: self._nav(msg, path), lambda: len(cur)):
                try:
                    read()
                except Exception:       # noqa  (reads of a state that does not encode are judged elsewhere)
                    pass
        if name == 'set':
            setattr(cur, args[0], args[1])
        elif name == 'disc':
            cur.discriminator = args[0]
        elif name == 'append':
            cur.append(args[0])
        elif name == 'insert':
            cur.insert(args[0], args[1])
        elif name == 'extend':
            vs = args[0]
            if isinstance(vs, str) and vs == 'SELF':
                # a list can be extended with itself; an implementation that iterates while it appends never ends
                import signal

                def _stuck(signum, frame):
                    raise RuntimeError('extend(self) did not finish within 10 s')
                old_handler = signal.signal(signal.SIGALRM, _stuck)
                signal.alarm(10)
                try:
                    cur.extend(cur)
                finally:
                    signal.alarm(0)
                    signal.signal(signal.SIGALRM, old_handler)
                return
            items = vs.items if isinstance(vs, A.ItArg) else vs
            if not isinstance(items, tuple) and any(isinstance(x, (dict, list)) for x in items):
                et = self._elem_type(path)
                built = {}      # equal elements are one object, as in the idiom a.extend([c] * 3)

                def one(x):
                    k = repr(x)
                    if k not in built:
                        built[k] = T.build(self.ref, et, self.model.to_tree(et, x), getattr(self.mod, self._cls_name(et))())
                    return built[k]
                items = [one(x) if isinstance(x, (dict, list)) else x for x in items]
                vs = iter(items) if isinstance(vs, A.ItArg) else items
            elif isinstance(vs, A.ItArg):
                vs = vs.make()
            cur.extend(vs)
        elif name == 'setitem':
            cur[args[0]] = args[1]
        elif name == 'setslice':
            cur[args[0]:args[1]] = args[2].make() if isinstance(args[2], A.ItArg) else args[2]
        elif name == 'setext':
            cur[args[0]:args[1]:args[2]] = args[3]
        elif name == 'delitem':
            del cur[args[0]]
        elif name == 'delslice':
            del cur[args[0]:args[1]]
        elif name == 'delext':
            del cur[args[0]:args[1]:args[2]]
        elif name == 'remove':
            cur.remove(args[0])
        elif name == 'add':
            cur.add(**dict(args[0]))
        else:
            raise ValueError(name)

    def _cls_name(self, t):
        d = self.ref.defs[t]
        while isinstance(d, S.Typedef):
            t = d.target
            d = self.ref.defs[t]
        return t


def hidden_keys(msg):
    """Structure of explicitly stored fields (harness-side read of _fields, only to keep apart
    states that look equal but may have different futures; never used as an oracle)."""
    out = []
    fields = getattr(msg, '_fields', None)
    if fields is None:
        return ()
    for k in sorted(fields):
        v = fields[k]
        if hasattr(v, '_fields'):
            out.append((k, hidden_keys(v)))
        elif hasattr(v, '_values'):
            out.append((k, tuple(hidden_keys(e) for e in v._values if hasattr(e, '_fields'))))
        else:
            out.append((k, None if v is None else repr(v)))     # the value too: a stale stored value may resurface
    return tuple(out)


def unset_str_bytes(msg):
    """True if some (nested) bytes field of the message still reads the str default ''."""
    try:
        desc = msg.get_descriptor()
    except Exception:       # noqa
        return False
    for name, tp, kind in desc:
        if kind[0] == 'BYTES':
            if isinstance(getattr(msg, name), str):
                return True
        elif kind[0] in ('STRUCT', 'UNION'):
            try:
                sub = getattr(msg, name)
            except Exception:   # noqa
                continue
            if sub is not None and unset_str_bytes(sub):
                return True
        elif kind[0] == 'ARRAY':
            for e in getattr(msg, name):
                if hasattr(e, 'get_descriptor') and unset_str_bytes(e):
                    return True
    return False


class NormalisedBytes(object):
    """View of a message in which a str '' read from a bytes field is b''."""

    def __init__(self, msg):
        object.__setattr__(self, '_m', msg)

    def __getattr__(self, name):
        v = getattr(self._m, name)
        if isinstance(v, str) and v == '':
            return b''
        if hasattr(v, 'get_descriptor'):
            return NormalisedBytes(v)
        if hasattr(v, '_values'):
            return [NormalisedBytes(e) if hasattr(e, 'get_descriptor') else e for e in v]
        return v


ACCEPT = {
    A.OK: ('ok',),
    A.REJ: ('ProphyError',),
    A.IDX: ('IndexError', 'ProphyError'),
    A.VAL: ('ValueError', 'ProphyError'),
}


def explore_type(job):
    """BFS on one zoo message.  Returns stats and violations."""
    name, depth, tier = job
    T.setup_repo()
    import prophy
    out = {'name': name, 'viol': [], 'states': 0, 'transitions': 0, 'executions': 0, 'outcomes': {}, 'depth_done': 0,
           'samples': [], 'max_frontier': 0}
    try:
        defs, top = zoo()[name]
        text = S.render_prophy(defs)
        res = T.compile_text(text, outs=('python',))
        if not res.ok:
            out['harness_error'] = 'zoo schema %s rejected: %s' % (name, res.exc)
            return out
        mod = T.import_generated(res.files['m.py'])
        ref = R.Ref(defs)
        model = A.ApiModel(ref)
        impl = Impl(ref, mod, top, model)
        floaty = any(ref.resolve(m.type) in S.FLOATS for d in defs if isinstance(d, S.Struct) for m in d.members
                     if m.type != 'bytes')
        init = model.default(top)
        seen_viol = {}
        cur_mode = [None]

        blocking = [0]

        def viol(key, hist, op, detail):
            seen_viol[key] = seen_viol.get(key, 0) + 1
            if not key.startswith('site='):
                # (a recorded site such as F11 is compared in normalised form and does not stop the exploration behind it)
                blocking[0] += 1
            art = None
            if seen_viol[key] <= 2:
                art = {'zoo': name, 'schema': text, 'history': [A.op_text(o) for o in hist], 'op': A.op_text(op) if op else None,
                       'mode': cur_mode[0],
                       'hist_ops': repr(hist), 'op_raw': repr(op), 'detail': detail}
            out['viol'].append((key, art))

        def check_state(msg, mstate, hist, op, mode, kindkey):
            """Invariant of a reached state: observation, encode, round trip, str."""
            tree = model.to_tree(top, mstate)
            if unset_str_bytes(msg):
                # recorded finding F11: a never-assigned non-fixed bytes field reads '' (str) and cannot be
                # encoded; the state is compared with that field normalised and not judged further
                viol('site=unset-bytes-default-is-str', hist, op, 'unset bytes field reads %r' % '')
                try:
                    obs = T.observe(ref, top, NormalisedBytes(msg))
                except Exception as e:      # noqa
                    viol('observe-raises|%s|%s|%s' % (type(e).__name__, kindkey, mode), hist, op, str(e))
                    return
                if obs != tree:
                    viol('state-differs|%s|%s' % (kindkey, mode), hist, op, 'observed %r\nmodel    %r' % (obs, tree))
                return
            try:
                obs = T.observe(ref, top, msg)
            except Exception as e:      # noqa
                viol('observe-raises|%s|%s|%s' % (type(e).__name__, kindkey, mode), hist, op, str(e))
                return
            if obs != tree:
                viol('state-differs|%s|%s' % (kindkey, mode), hist, op, 'observed %r\nmodel    %r' % (obs, tree))
                return
            refusal = model.encodable(top, mstate)
            try:
                data = msg.encode('<')
                enc_out = 'ok'
            except prophy.ProphyError:
                enc_out = 'ProphyError'
            except Exception as e:      # noqa
                enc_out = type(e).__name__
            if refusal:
                if enc_out != 'ProphyError':
                    viol('encode-should-refuse|got=%s|%s' % (enc_out, kindkey), hist, op, 'arrays sharing a sizer differ')
                return
            if enc_out != 'ok':
                viol('encode-raises|%s|%s|%s' % (enc_out, kindkey, mode), hist, op, 'state %r does not encode' % (tree,))
                return
            exp, spans = ref.encode(top, tree, '<')
            if data != exp:
                viol('encode-differs|%s' % kindkey, hist, op, 'encoded %s expected %s' % (data.hex(), exp.hex()))
                return
            if not (ref.layout(top).kind == R.K_UNLIMITED and spans and spans[-1].role == 'pad:tail'):
                back = getattr(mod, top)()
                try:
                    n = back.decode(data, '<')
                    if n != len(data) or T.observe(ref, top, back) != tree:
                        viol('roundtrip-differs|%s' % kindkey, hist, op, 'decode(encode()) gives %r' % (T.observe(ref, top, back),))
                except Exception as e:      # noqa
                    viol('roundtrip-raises|%s|%s' % (type(e).__name__, kindkey), hist, op, str(e))
            if not floaty:
                want = ref.render(top, tree)
                got = str(msg)
                if got != want:
                    viol('str-differs|%s' % kindkey, hist, op, 'str() %r expected %r' % (got, want))

        def run_history(hist, mode):
            msg = impl.fresh()
            for o in hist:
                impl.execute(msg, o)
                if mode == 'dense':
                    try:
                        T.observe(ref, top, msg)
                    except Exception:   # noqa
                        pass
            return msg

        # initial state
        m0 = impl.fresh()
        check_state(m0, init, (), None, 'sparse', 'initial')
        seen = {(repr(init), hidden_keys(impl.fresh()))}
        frontier = [((), init)]
        out['states'] = 1
        for d in range(1, depth + 1):
            nxt = []
            for hist, mstate in frontier:
                for op in A.ops_for(model, top, mstate):
                    outcome_m, new_m = model.apply(top, mstate, op)
                    kindkey = '%s|%s' % (op[1], op_kind(ref, top, op))
                    out['transitions'] += 1
                    hidden = None
                    nviol = blocking[0]
                    for mode in ('sparse', 'dense', 'held'):
                        if mode == 'held' and not op[0]:
                            continue
                        cur_mode[0] = mode
                        msg = run_history(hist, 'sparse' if mode == 'held' else mode)
                        got = impl.execute(msg, op, held=(mode == 'held'))
                        out['executions'] += 1
                        out['outcomes'][got] = out['outcomes'].get(got, 0) + 1
                        if got not in ACCEPT[outcome_m]:
                            why = ('|why=' + model.last_why) if getattr(model, 'last_why', '') else ''
                            viol('outcome|model=%s|impl=%s|%s%s' % (outcome_m, got, kindkey, why), hist, op,
                                 'model says %s, implementation %s' % (outcome_m, got))
                            # the implementation state is unknown territory: still require it to be valid if the
                            # call was rejected (unchanged) -- checked below against the model's state
                            if got == 'ok' or outcome_m == A.OK:
                                continue
                        check_state(msg, new_m, hist, op, mode, kindkey)
                        if mode == 'sparse':
                            hidden = hidden_keys(run_history(hist + (op,), 'sparse'))
                    if outcome_m == A.OK and blocking[0] == nviol:
                        # (a transition that already violated the property is not extended: its
                        # descendants would only repeat the same divergence)
                        key = (repr(new_m), hidden)
                        if key not in seen:
                            seen.add(key)
                            nxt.append((hist + (op,), new_m))
                            if len(out['samples']) < 3 and d >= 2:
                                out['samples'].append({'zoo': name, 'history': [A.op_text(o) for o in hist + (op,)],
                                                       'state': repr(model.to_tree(top, new_m))[:200]})
            out['states'] += len(nxt)
            out['depth_done'] = d
            out['max_frontier'] = max(out['max_frontier'], len(nxt))
            frontier = nxt
            if not frontier:
                break
    except Exception:       # noqa
        out['harness_error'] = traceback.format_exc()
    return out


def op_kind(ref, top, op):
    """field kind the operation acts on (class key material)."""
    path, name, args = op
    t = top
    f = None
    for step in path:
        r = ref.resolve(t)
        if step[0] == 'f':
            f = [x for x in ref.fields(r.name) if x.name == step[1]][0]
            t = f.type
        elif step[0] == 'arm':
            t = [a for a in r.arms if a.name == step[1]][0].type
            f = None
    r = ref.resolve(t) if t != 'bytes' else 'u8'
    argk = ''
    if name == 'set':
        if isinstance(r, S.Struct) and (f is None or f.kind != 'array'):
            g = [x for x in ref.fields(r.name) if x.name == args[0]][0]
            tk = '%s:%s' % (g.kind, g.mode or '')
            if g.kind in ('scalar', 'opt', 'enum'):
                gr = ref.resolve(g.type)
                tk += ':' + (gr if isinstance(gr, str) else type(gr).__name__)
            argk = tk + ':' + type(args[1]).__name__
        elif isinstance(r, S.Union):
            argk = 'arm:' + type(args[1]).__name__
    elif f is not None and f.kind == 'array':
        er = ref.resolve(f.type)
        argk = 'array:%s:%s' % (f.mode, er if isinstance(er, str) else type(er).__name__)
        for a in args:
            if isinstance(a, A.ItArg):
                argk += ':iterator'
    return argk
