"""Our own tiny schema AST and its renderers.

prophyc never sees these objects: only the text produced by render_prophy /
render_isar (+patch) / render_sack.  The reference model (vf.refmodel) works on
the AST directly, so the oracle and the code under test share nothing but the
documented meaning of the text.
"""
from collections import namedtuple

# name -> (size, struct pack code, signed?, is float?)
SCALARS = {
    'u8': (1, 'B'), 'u16': (2, 'H'), 'u32': (4, 'I'), 'u64': (8, 'Q'),
    'i8': (1, 'b'), 'i16': (2, 'h'), 'i32': (4, 'i'), 'i64': (8, 'q'),
    'float': (4, 'f'), 'double': (8, 'd'),
}
INT_RANGE = {
    'u8': (0, 2 ** 8 - 1), 'u16': (0, 2 ** 16 - 1), 'u32': (0, 2 ** 32 - 1), 'u64': (0, 2 ** 64 - 1),
    'i8': (-2 ** 7, 2 ** 7 - 1), 'i16': (-2 ** 15, 2 ** 15 - 1), 'i32': (-2 ** 31, 2 ** 31 - 1),
    'i64': (-2 ** 63, 2 ** 63 - 1),
}
FLOATS = ('float', 'double')

# forms of a struct member
PLAIN, OPT, FIXED, LIMITED, DYNAMIC, EXT, GREEDY = 'plain', 'opt', 'fixed', 'limited', 'dynamic', 'ext', 'greedy'
ARRAY_FORMS = (FIXED, LIMITED, DYNAMIC, EXT, GREEDY)

Const = namedtuple('Const', 'name expr')
Enum = namedtuple('Enum', 'name members')            # members: [(name, int-or-expr)]
Typedef = namedtuple('Typedef', 'name target')
Struct = namedtuple('Struct', 'name members')
Union = namedtuple('Union', 'name arms')
Include = namedtuple('Include', 'path')
# type: scalar name, 'bytes' (array forms only) or the name of an earlier definition
# arg : int (fixed/limited), sizer member name (ext), None otherwise
Member = namedtuple('Member', 'name type form arg')
Arm = namedtuple('Arm', 'disc type name')


def M(name, type_, form=PLAIN, arg=None):
    return Member(name, type_, form, arg)


def render_member(m):
    t = m.type
    if m.form == PLAIN:
        return '%s %s;' % (t, m.name)
    if m.form == OPT:
        return '%s* %s;' % (t, m.name)
    if m.form == FIXED:
        return '%s %s[%s];' % (t, m.name, m.arg)
    if m.form == LIMITED:
        return '%s %s<%s>;' % (t, m.name, m.arg)
    if m.form == DYNAMIC:
        return '%s %s<>;' % (t, m.name)
    if m.form == EXT:
        return '%s %s<@%s>;' % (t, m.name, m.arg)
    if m.form == GREEDY:
        return '%s %s<...>;' % (t, m.name)
    raise ValueError(m.form)


def render_def(d):
    if isinstance(d, Const):
        return 'const %s = %s;' % (d.name, d.expr)
    if isinstance(d, Enum):
        return 'enum %s\n{\n%s\n};' % (d.name, ',\n'.join('    %s = %s' % (n, v) for n, v in d.members))
    if isinstance(d, Typedef):
        return 'typedef %s %s;' % (d.target, d.name)
    if isinstance(d, Struct):
        return 'struct %s\n{\n%s\n};' % (d.name, '\n'.join('    ' + render_member(m) for m in d.members))
    if isinstance(d, Union):
        return 'union %s\n{\n%s\n};' % (
            d.name, '\n'.join('    %s: %s %s;' % (a.disc, a.type, a.name) for a in d.arms))
    if isinstance(d, Include):
        return '#include "%s"' % d.path
    raise TypeError(d)


def render_prophy(defs):
    return '\n\n'.join(render_def(d) for d in defs) + '\n'


def def_names(defs):
    return [d.name for d in defs if not isinstance(d, Include)]


def deps_of(d):
    """Names of earlier definitions a definition refers to (types only)."""
    if isinstance(d, Typedef):
        return [d.target] if d.target not in SCALARS else []
    if isinstance(d, Struct):
        return [m.type for m in d.members if m.type not in SCALARS and m.type != 'bytes']
    if isinstance(d, Union):
        return [a.type for a in d.arms if a.type not in SCALARS]
    return []


def closure(defs_by_name, roots):
    """Definitions (in dependency order) needed by the root names."""
    out, seen = [], set()

    def visit(n):
        if n in seen or n not in defs_by_name:
            return
        seen.add(n)
        for dep in deps_of(defs_by_name[n]):
            visit(dep)
        out.append(defs_by_name[n])

    for r in roots:
        visit(r)
    return out


def defs_to_json(defs):
    out = []
    for d in defs:
        if isinstance(d, Const):
            out.append(['const', d.name, d.expr])
        elif isinstance(d, Enum):
            out.append(['enum', d.name, [list(m) for m in d.members]])
        elif isinstance(d, Typedef):
            out.append(['typedef', d.name, d.target])
        elif isinstance(d, Struct):
            out.append(['struct', d.name, [list(m) for m in d.members]])
        elif isinstance(d, Union):
            out.append(['union', d.name, [list(a) for a in d.arms]])
        elif isinstance(d, Include):
            out.append(['include', d.path])
    return out


def defs_from_json(items):
    out = []
    for it in items:
        k = it[0]
        if k == 'const':
            out.append(Const(it[1], it[2]))
        elif k == 'enum':
            out.append(Enum(it[1], [tuple(m) for m in it[2]]))
        elif k == 'typedef':
            out.append(Typedef(it[1], it[2]))
        elif k == 'struct':
            out.append(Struct(it[1], [Member(*m) for m in it[2]]))
        elif k == 'union':
            out.append(Union(it[1], [Arm(*a) for a in it[2]]))
        elif k == 'include':
            out.append(Include(it[1]))
    return out
