"""C++ full-codec driver: generation, compilation, execution (DESIGN 3.5).

One driver TU per batch; protocol on stdin, one case per line:
    <id> <type> <endian: little|big|native> <op> <hex or ->
ops: dec           decode, then report size observations, re-encodings, print text
     overfill      decode, push every limited vector past its limit, report
     clear         decode, clear arrays / reset optionals, report
     fresh         no decode: report on the default-constructed object
     reuse         hex is <first>/<second>: decode <first> into the object (result ignored), then decode <second> into
                   the same object and report as for dec
     build         no decode: the hex is a stream of 64-bit little-endian words assigned to the public members in
                   declaration order (see value_words); report
stdout, per case:  BEGIN <id>   then   R <id> k=v ...
"""
import os
import subprocess

from . import schema as S
from . import refmodel as R
from . import toolchain as T

CXX = os.environ.get('VERIF_CXX', 'clang++-14')
# every check aborts except the enum-range check, which reports and continues (the report is attributed to its
# case through the BEGIN markers on stderr); loads of out-of-range enum values are a recorded finding
SAN_FLAGS = ['-fsanitize=address,undefined', '-fno-sanitize-recover=all', '-fsanitize-recover=enum',
             '-fno-omit-frame-pointer']
BASE_FLAGS = ['-std=gnu++14', '-O0', '-g0', '-w']
ASAN_ENV = {'ASAN_OPTIONS': 'detect_leaks=0:abort_on_error=0:exitcode=86:allocator_may_return_null=1:'
                            'max_allocation_size_mb=256',
            'UBSAN_OPTIONS': 'print_stacktrace=0:exitcode=87'}

DRIVER_PRELUDE = r'''
#include <stdint.h>
#include <stdio.h>
#include <stdlib.h>
#include <string.h>
#include <string>
#include <vector>
#include <new>
#include <stdexcept>
#include <map>
#include "m.ppf.hpp"

static size_t g_alloc_total = 0;
static size_t g_alloc_cap_single = size_t(1) << 20;
static size_t g_alloc_cap_total = size_t(4) << 20;
static bool g_counting = false;

void* operator new(size_t n)
{
    if (g_counting)
    {
        if (n > g_alloc_cap_single || g_alloc_total + n > g_alloc_cap_total) throw std::bad_alloc();
        g_alloc_total += n;
    }
    void* p = malloc(n ? n : 1);
    if (!p) throw std::bad_alloc();
    return p;
}
void* operator new[](size_t n) { return operator new(n); }
void operator delete(void* p) noexcept { free(p); }
void operator delete[](void* p) noexcept { free(p); }
void operator delete(void* p, size_t) noexcept { free(p); }
void operator delete[](void* p, size_t) noexcept { free(p); }

static const size_t ARENA = 65536;
static const size_t CANARY = 64;
static const size_t SANE = 65536;

static void put_hex(const uint8_t* p, size_t n)
{
    static const char* d = "0123456789abcdef";
    if (!n) { fputc('-', stdout); return; }
    for (size_t i = 0; i < n; ++i) { fputc(d[p[i] >> 4], stdout); fputc(d[p[i] & 15], stdout); }
}

static std::vector<uint8_t> from_hex(const char* s)
{
    std::vector<uint8_t> out;
    if (s[0] == '-') return out;
    size_t n = strlen(s);
    for (size_t i = 0; i + 1 < n; i += 2)
    {
        unsigned v; sscanf(s + i, "%2x", &v); out.push_back(uint8_t(v));
    }
    return out;
}

template <class T> struct mutate { static void overfill(T&) { } static void clear(T&) { } };

// Building a value through the public members, from a flat word stream (op "build"): independent of the decoder.
struct rd { const uint64_t* p; const uint64_t* e; uint64_t w() { return p < e ? *p++ : 0; } };
template <class T> struct bld;
#define PUT_INT(T) static inline void put(T& x, rd& r) { x = (T)r.w(); }
PUT_INT(uint8_t) PUT_INT(uint16_t) PUT_INT(uint32_t) PUT_INT(uint64_t)
PUT_INT(int8_t) PUT_INT(int16_t) PUT_INT(int32_t) PUT_INT(int64_t)
static inline void put(float& x, rd& r) { uint32_t b = (uint32_t)r.w(); memcpy(&x, &b, 4); }
static inline void put(double& x, rd& r) { uint64_t b = r.w(); memcpy(&x, &b, 8); }
template <class T> static inline void put_enum(T& x, rd& r) { x = static_cast<T>(r.w()); }
template <class T> static inline void put_comp(T& x, rd& r) { bld<T>::go(x, r); }
template <class T> static inline T& engage(prophy::optional<T>& o) { o = T(); return *o; }
template <class T> static inline void disengage(prophy::optional<T>& o) { o = prophy::optional<T>(); }

// Type-erased access to one generated message type: keeps the per-type template code tiny.
struct vt_t
{
    void* (*create)();
    void (*destroy)(void*);
    bool (*decode[3])(void*, const uint8_t*, size_t);
    size_t (*enc_ptr[3])(const void*, uint8_t*);
    void (*enc_vec[3])(const void*, std::vector<uint8_t>&);
    size_t (*gbs)(const void*);
    int ebs;
    void (*print)(const void*, std::string&);
    void (*overfill)(void*);
    void (*clear)(void*);
    void (*build)(void*, const uint64_t*, size_t);
};

template <class T>
struct th
{
    static void* create() { return new T(); }
    static void destroy(void* p) { delete static_cast<T*>(p); }
    template <prophy::endianness E> static bool dec(void* p, const uint8_t* d, size_t n)
    { return static_cast<T*>(p)->template decode<E>(d, n); }
    template <prophy::endianness E> static size_t encp(const void* p, uint8_t* out)
    { return static_cast<const T*>(p)->template encode<E>(out); }
    template <prophy::endianness E> static void encv(const void* p, std::vector<uint8_t>& out)
    { out = static_cast<const T*>(p)->template encode<E>(); }
    static size_t gbs(const void* p) { return static_cast<const T*>(p)->get_byte_size(); }
    static void print(const void* p, std::string& out) { out = static_cast<const T*>(p)->print(); }
    static void overfill(void* p) { mutate<T>::overfill(*static_cast<T*>(p)); }
    static void clear(void* p) { mutate<T>::clear(*static_cast<T*>(p)); }
    static void build(void* p, const uint64_t* w, size_t n) { rd r = { w, w + n }; bld<T>::go(*static_cast<T*>(p), r); }
    static vt_t make()
    {
        vt_t v;
        v.create = &create; v.destroy = &destroy;
        v.decode[0] = &dec<prophy::native>; v.decode[1] = &dec<prophy::little>; v.decode[2] = &dec<prophy::big>;
        v.enc_ptr[0] = &encp<prophy::native>; v.enc_ptr[1] = &encp<prophy::little>; v.enc_ptr[2] = &encp<prophy::big>;
        v.enc_vec[0] = &encv<prophy::native>; v.enc_vec[1] = &encv<prophy::little>; v.enc_vec[2] = &encv<prophy::big>;
        v.gbs = &gbs; v.ebs = int(T::encoded_byte_size); v.print = &print;
        v.overfill = &overfill; v.clear = &clear; v.build = &build;
        return v;
    }
};

static void report(const vt_t& vt, int e, void* x)
{
    size_t gbs = vt.gbs(x);
    printf(" ebs=%d", vt.ebs);
    if (gbs > SANE) { printf(" gbs=ABSURD:%zu", gbs); return; }
    printf(" gbs=%zu", gbs);
    // (1) pointer encode into a canary framed arena: true written count, out of range writes
    static uint8_t* arena = 0;
    if (!arena) arena = (uint8_t*)malloc(CANARY + ARENA + CANARY);
    memset(arena, 0xA5, CANARY + ARENA + CANARY);
    size_t pn = vt.enc_ptr[e](x, arena + CANARY);
    bool under = false, over = false;
    for (size_t i = 0; i < CANARY; ++i) if (arena[i] != 0xA5) under = true;
    size_t last = 0;
    for (size_t i = ARENA + CANARY; i > 0; --i) if (arena[CANARY + i - 1] != 0xA5) { last = i; break; }
    if (last > gbs) over = true;
    printf(" pn=%zu under=%d over=%d last=%zu", pn, int(under), int(over), last);
    printf(" phex="); put_hex(arena + CANARY, pn <= SANE ? pn : 0);
    if (pn > gbs || over || under) return;   // do not run the exact-size encodes: they would overrun
    // (2) pointer encode into an exact-size heap buffer (ASan traps any overrun or stray access)
    uint8_t* exact = (uint8_t*)malloc(gbs ? gbs : 1);
    size_t pn2 = vt.enc_ptr[e](x, exact);
    printf(" pn2=%zu", pn2);
    free(exact);
    // (3) vector encode
    std::vector<uint8_t> v;
    vt.enc_vec[e](x, v);
    printf(" vn=%zu vhex=", v.size()); put_hex(v.data(), v.size());
    std::string text;
    vt.print(x, text);
    printf(" print="); put_hex((const uint8_t*)text.data(), text.size());
}

static void run(const vt_t& vt, const char* id, const char* endian, const char* op, const std::vector<uint8_t>& in,
                const std::vector<uint8_t>* prime)
{
    int e = !strcmp(endian, "little") ? 1 : !strcmp(endian, "big") ? 2 : 0;
    // exact-size heap copy of the input: any read outside [data, data+size) is an ASan error
    uint8_t* buf = (uint8_t*)malloc(in.size() ? in.size() : 1);
    if (in.size()) memcpy(buf, in.data(), in.size());
    printf("R %s", id);
    void* x = vt.create();
    try
    {
        g_alloc_total = 0; g_counting = true;
        // "fresh": the default-constructed object, no decode (values a decoder cannot deliver still get their sizes checked)
        bool ok;
        if (!strcmp(op, "fresh")) ok = true;
        else if (!strcmp(op, "build"))
        {
            std::vector<uint64_t> words(in.size() / 8 + 1);
            if (in.size()) memcpy(&words[0], buf, in.size() / 8 * 8);
            vt.build(x, &words[0], in.size() / 8);
            ok = true;
        }
        else
        {
            if (prime)
            {
                // "reuse": the object first receives another input (result ignored), then the one under judgement
                uint8_t* pb = (uint8_t*)malloc(prime->size() ? prime->size() : 1);
                if (prime->size()) memcpy(pb, prime->data(), prime->size());
                try { vt.decode[e](x, pb, prime->size()); } catch (...) { g_alloc_total = 0; }
                free(pb);
                g_alloc_total = 0;
            }
            ok = vt.decode[e](x, buf, in.size());
        }
        g_counting = false;
        printf(" ok=%d alloc=%zu", int(ok), g_alloc_total);
        if (ok)
        {
            if (!strcmp(op, "overfill")) vt.overfill(x);
            if (!strcmp(op, "clear")) vt.clear(x);
            report(vt, e, x);
        }
    }
    catch (const std::bad_alloc&) { g_counting = false; printf(" exc=ALLOC-CAP alloc=%zu", g_alloc_total); }
    catch (const std::length_error&) { g_counting = false; printf(" exc=LENGTH-ERROR alloc=%zu", g_alloc_total); }
    vt.destroy(x);
    free(buf);
    printf("\n");
}
'''

DRIVER_MAIN = r'''
int main()
{
    std::map<std::string, vt_t> table;
    fill_table(table);
    static char line[400000];
    while (fgets(line, sizeof line, stdin))
    {
        char id[64], type[128], endian[16], op[16];
        int off = 0;
        if (sscanf(line, "%63s %127s %15s %15s %n", id, type, endian, op, &off) < 4) continue;
        char* hex = line + off;
        size_t n = strlen(hex);
        while (n && (hex[n - 1] == '\n' || hex[n - 1] == ' ')) hex[--n] = 0;
        printf("BEGIN %s\n", id); fflush(stdout);
        fprintf(stderr, "BEGIN %s\n", id); fflush(stderr);
        std::map<std::string, vt_t>::iterator it = table.find(type);
        if (it == table.end()) { printf("R %s exc=NO-SUCH-TYPE\n", id); fflush(stdout); continue; }
        char* slash = strchr(hex, '/');
        if (slash)
        {
            *slash = 0;
            std::vector<uint8_t> first = from_hex(hex);
            run(it->second, id, endian, op, from_hex(slash + 1), &first);
        }
        else run(it->second, id, endian, op, from_hex(hex), 0);
        fflush(stdout);
    }
    return 0;
}
'''


def mutators(ref, name):
    """C++ code pushing limited vectors of struct `name` past their limit / clearing."""
    d = ref.resolve(name)
    if not isinstance(d, S.Struct):
        return ''
    over, clear = [], []
    for f in ref.fields(name):
        if f.kind in ('array', 'bytes'):
            if f.mode == 'limited':
                over.append('x.%s.resize(%d);' % (f.name, f.n + 2))
                clear.append('x.%s.clear();' % f.name)
            elif f.mode in ('counted', 'greedy'):
                clear.append('x.%s.clear();' % f.name)
        elif f.kind == 'opt':
            clear.append('x.%s = prophy::optional<%s>();' % (f.name, cpp_type(ref, f.type)))
    return ('template <> struct mutate<prophy::generated::%s> {\n'
            '  static void overfill(prophy::generated::%s& x) { %s }\n'
            '  static void clear(prophy::generated::%s& x) { %s }\n};\n' % (
                name, name, ' '.join(over), name, ' '.join(clear)))


def _putter(ref, t):
    r = ref.resolve(t)
    if isinstance(r, str):
        return 'put'
    if isinstance(r, S.Enum):
        return 'put_enum'
    return 'put_comp'


def builders(ref):
    """bld<T>::go for every struct and union of the schema, dependencies first."""
    out = []
    done = set()

    def emit(name):
        d = ref.resolve(name)
        if isinstance(d, str) or isinstance(d, S.Enum) or d.name in done:
            return
        done.add(d.name)
        body = []
        if isinstance(d, S.Union):
            for a in d.arms:
                emit(a.type)
            body.append('switch (r.w()) {')
            for i, a in enumerate(d.arms):
                body.append('case %d: x.discriminator = prophy::generated::%s::discriminator_%s; %s(x.%s, r); break;' % (
                    i, d.name, a.name, _putter(ref, a.type), a.name))
            body.append('}')
        else:
            for f in ref.fields(d.name):
                if f.kind in ('counter', 'sizer'):
                    continue
                if f.kind != 'bytes':
                    emit(f.type)
                P = 'put' if f.kind == 'bytes' else _putter(ref, f.type)
                if f.kind in ('scalar', 'enum', 'comp'):
                    body.append('%s(x.%s, r);' % (P, f.name))
                elif f.kind == 'opt':
                    body.append('if (r.w()) %s(engage(x.%s), r); else disengage(x.%s);' % (P, f.name, f.name))
                elif f.mode == 'fixed':
                    body.append('{ uint64_t n = r.w(); for (uint64_t i = 0; i < n && i < %d; ++i) %s(x.%s[i], r); }' % (
                        f.n, P, f.name))
                else:
                    body.append('{ uint64_t n = r.w(); x.%s.resize(n); for (uint64_t i = 0; i < n; ++i) %s(x.%s[i], r); }' % (
                        f.name, P, f.name))
        out.append('template <> struct bld<prophy::generated::%s> { static void go(prophy::generated::%s& x, rd& r) {\n  %s\n} };\n'
                   % (d.name, d.name, '\n  '.join(body)))

    for d in list(ref.defs.values()):
        if isinstance(d, (S.Struct, S.Union)):
            emit(d.name)
    return ''.join(out)


def value_words(ref, t, v, out=None):
    """The word stream bld<T>::go consumes for value tree v (as bytes: 8 bytes little endian per word)."""
    import struct as _st
    top = out is None
    out = [] if top else out
    r = ref.resolve(t)
    if isinstance(r, str):
        if r == 'float':
            out.append(_st.unpack('<I', _st.pack('<f', v))[0])
        elif r == 'double':
            out.append(_st.unpack('<Q', _st.pack('<d', v))[0])
        else:
            out.append(int(v) & 0xffffffffffffffff)
    elif isinstance(r, S.Enum):
        out.append(ref.enum_value(r, v) & 0xffffffffffffffff)
    elif isinstance(r, S.Union):
        armname, armval = v
        i = [a.name for a in r.arms].index(armname)
        out.append(i)
        value_words(ref, r.arms[i].type, armval, out)
    else:
        for f in ref.fields(r.name):
            if f.kind in ('counter', 'sizer'):
                continue
            val = v[f.name]
            if f.kind in ('scalar', 'enum', 'comp'):
                value_words(ref, f.type, val, out)
            elif f.kind == 'opt':
                out.append(0 if val is None else 1)
                if val is not None:
                    value_words(ref, f.type, val, out)
            elif f.kind == 'bytes':
                out.append(len(val))
                out.extend(bytearray(val))
            else:
                out.append(len(val))
                for e in val:
                    value_words(ref, f.type, e, out)
    if top:
        return b''.join(_st.pack('<Q', w) for w in out)
    return out


CPP_SCALAR = {'u8': 'uint8_t', 'u16': 'uint16_t', 'u32': 'uint32_t', 'u64': 'uint64_t', 'i8': 'int8_t',
              'i16': 'int16_t', 'i32': 'int32_t', 'i64': 'int64_t', 'float': 'float', 'double': 'double'}


def cpp_type(ref, t):
    if t in CPP_SCALAR:
        return CPP_SCALAR[t]
    return 'prophy::generated::' + t


def driver_source(ref, tops):
    out = [DRIVER_PRELUDE]
    for t in tops:
        out.append(mutators(ref, t))
    out.append(builders(ref))
    out.append('static void fill_table(std::map<std::string, vt_t>& t)\n{\n')
    for t in tops:
        out.append('    t["%s"] = th<prophy::generated::%s>::make();\n' % (t, t))
    out.append('}\n')
    out.append(DRIVER_MAIN)
    return ''.join(out)


class BuildFailure(Exception):
    def __init__(self, stage, text):
        Exception.__init__(self, '%s: %s' % (stage, text[:2000]))
        self.stage = stage
        self.text = text


def build_driver(workdir, ref, tops, sanitize=True):
    """workdir holds m.ppf.hpp / m.ppf.cpp.  Returns path of the executable."""
    inc = os.path.join(T.REPO, 'prophy_cpp', 'include')
    drv = os.path.join(workdir, 'drv.cpp')
    with open(drv, 'w') as f:
        f.write(driver_source(ref, tops))
    exe = os.path.join(workdir, 'drv')
    san = SAN_FLAGS if sanitize else []
    # the code under test (generated codec + header templates it instantiates) lives in m.ppf.cpp and is
    # built with ASan+UBSan; the driver TU only holds thin inline wrappers and is linked against the runtime
    steps = [
        [CXX] + BASE_FLAGS + san + ['-I', inc, '-I', workdir, '-c', os.path.join(workdir, 'm.ppf.cpp'),
                                    '-o', os.path.join(workdir, 'm.ppf.o')],
        [CXX] + BASE_FLAGS + ['-I', inc, '-I', workdir, '-c', drv, '-o', os.path.join(workdir, 'drv.o')],
        [CXX] + BASE_FLAGS + san + [os.path.join(workdir, 'm.ppf.o'), os.path.join(workdir, 'drv.o'), '-o', exe],
    ]
    for cmd in steps:
        p = subprocess.run(cmd, stdout=subprocess.PIPE, stderr=subprocess.STDOUT)
        if p.returncode != 0:
            raise BuildFailure('c++', p.stdout.decode('utf-8', 'replace'))
    return exe


def parse_result(line):
    parts = line.split()
    res = {'id': parts[1]}
    for kv in parts[2:]:
        k, _, v = kv.partition('=')
        res[k] = v
    return res


def _hex(x):
    if isinstance(x, tuple):        # (first, second) of op reuse
        return '%s/%s' % (x[0].hex() or '-', x[1].hex() or '-')
    return x.hex() if x else '-'


def _run_alone(exe, case, env, timeout):
    text = '%s %s %s %s %s\n' % (case[0], case[1], case[2], case[3], _hex(case[4]))
    try:
        subprocess.run([exe], input=text.encode(), stdout=subprocess.PIPE, stderr=subprocess.PIPE, env=env, timeout=timeout)
        return True
    except subprocess.TimeoutExpired:
        return None


def run_driver(exe, cases, timeout=120):
    """cases: list of (id, type, endian, op, bytes).  Returns {id: result dict}; a result
    may be {'crash': report text, 'exit': code} when the process died on that case."""
    results = {}
    pending = list(cases)
    env = dict(os.environ)
    env.update(ASAN_ENV)
    while pending:
        text = ''.join('%s %s %s %s %s\n' % (c[0], c[1], c[2], c[3], _hex(c[4])) for c in pending)
        try:
            p = subprocess.run([exe], input=text.encode(), stdout=subprocess.PIPE, stderr=subprocess.PIPE, env=env,
                               timeout=timeout)
            out, err, code = p.stdout.decode('latin-1'), p.stderr.decode('latin-1'), p.returncode
        except subprocess.TimeoutExpired as e:
            out = (e.stdout or b'').decode('latin-1')
            err, code = 'TIMEOUT', -999
        last_begin = None
        done = set()
        for line in out.splitlines():
            if line.startswith('BEGIN '):
                last_begin = line.split()[1]
            elif line.startswith('R '):
                r = parse_result(line)
                results[r['id']] = r
                done.add(r['id'])
        # recovered sanitizer reports (enum range): attribute through the BEGIN markers on stderr
        cur = None
        for line in err.splitlines():
            if line.startswith('BEGIN '):
                cur = line.split()[1]
            elif 'runtime error:' in line and cur in results and 'ubsan' not in results[cur]:
                results[cur]['ubsan'] = line.strip()[-300:]
        if code == 0:
            break
        if code == -999:
            # ran out of time: a loaded machine or a case that never ends.  Go on after the finished cases; only a
            # case that makes no progress when it runs first, alone, within the full time is reported as a hang.
            ids = [c[0] for c in pending]
            if last_begin is None:
                raise RuntimeError('driver produced nothing within %d s' % timeout)
            idx = ids.index(last_begin)
            if last_begin in done:
                pending = pending[idx + 1:]
                continue
            if idx > 0:
                pending = pending[idx:]
                continue
            alone = _run_alone(exe, pending[0], env, timeout)
            if alone is None:
                results[last_begin] = {'id': last_begin, 'crash': 'TIMEOUT: the case alone does not finish within %d s' % timeout,
                                       'exit': code}
                pending = pending[1:]
            else:
                pending = pending[0:]
                timeout *= 2        # it does finish alone: the machine is slow, give the batch more time
            continue
        # died: attribute to the last BEGIN without result
        if last_begin is None or last_begin in done:
            # died outside a case: harness problem
            raise RuntimeError('driver died outside a case: exit %s\n%s' % (code, err[-2000:]))
        results[last_begin] = {'id': last_begin, 'crash': err[-6000:], 'exit': code}
        ids = [c[0] for c in pending]
        idx = ids.index(last_begin)
        pending = pending[idx + 1:]
    return results


def crash_frame(report):
    """First non-runtime frame / summary line of a sanitizer report (class key material)."""
    import re
    if report == 'TIMEOUT':
        return 'timeout'
    m = re.search(r'runtime error: ([^\n]*)', report)
    if m:
        text = m.group(1)
        text = re.sub(r'0x[0-9a-f]+', 'ADDR', text)
        text = re.sub(r'\d+', 'N', text)
        loc = re.search(r'include/prophy/([\w/\.]+):(\d+)', report)
        return 'ubsan:%s@%s' % (text[:80], loc.group(1) if loc else '?')
    m = re.search(r'ERROR: AddressSanitizer: ([\w-]+)', report)
    if m:
        kind = m.group(1)
        rw = re.search(r'\n(READ|WRITE) of size (\d+)', report)
        frames = re.findall(r'#\d+ 0x[0-9a-f]+ in ([^\n]+)', report)
        where = '?'
        for fr in frames:
            if 'prophy' in fr or 'message_impl' in fr:
                fn = fr.split(' /')[0]
                fn = re.sub(r'<.*', '', fn)
                fn = re.sub(r'\(.*', '', fn)
                where = fn.strip()
                break
        return 'asan:%s:%s:%s' % (kind, rw.group(1) if rw else '-', where)
    return 'died'
