"""Runner: `python -m vf.run <Cnn> [--tier quick|thorough]`.

Exit 0: property held on everything explored (known findings are printed as
KNOWN-FINDING lines).  Exit 1: at least one `VIOLATION property=<id> replay=<path>`.
Exit 2: harness error (`HARNESS-ERROR ...`), never mixed up with a violation.
"""
import argparse
import fnmatch
import hashlib
import importlib
import json
import os
import subprocess
import sys
import time
import traceback

HERE = os.path.dirname(os.path.dirname(os.path.abspath(__file__)))
LEVELS = {
    'C06': 'fault_enumeration', 'C07': 'fault_enumeration', 'C13': 'fault_enumeration',
}


class HarnessError(Exception):
    pass


class Ctx(object):
    def __init__(self, pid, tier, seed):
        self.pid = pid
        self.tier = tier
        self.seed = seed
        self.violations = {}      # key -> [artefact, ...]
        self.violation_counts = {}
        self.cov = {
            'states': 0, 'transitions': 0, 'traces_validated_against_impl': 0,
            'evaluations': 0, 'distinct_nontrivial': 0, 'rule': '', 'samples': [], 'exhaustive': True,
            'caps': [], 'outcomes': {},
        }
        self.assumptions = []
        self.notes = []
        self._pool = None
        self.workers = int(os.environ.get('VERIF_WORKERS', '0')) or min(16, os.cpu_count() or 1)

    # -- violations ---------------------------------------------------------
    def violation(self, key, artefact, keep=5):
        self.violation_counts[key] = self.violation_counts.get(key, 0) + 1
        lst = self.violations.setdefault(key, [])
        if len(lst) < keep:
            lst.append(artefact)

    def merge_violations(self, items):
        for key, artefact in items:
            self.violation(key, artefact)

    def outcome(self, name, n=1):
        self.cov['outcomes'][name] = self.cov['outcomes'].get(name, 0) + n

    def sample(self, s, limit=6):
        if len(self.cov['samples']) < limit:
            self.cov['samples'].append(s)

    def cap(self, text):
        self.cov['exhaustive'] = False
        if text not in self.cov['caps']:
            self.cov['caps'].append(text)

    # -- parallel map ---------------------------------------------------------
    def pmap(self, fn, items, chunksize=1):
        items = list(items)
        if self.workers <= 1 or len(items) <= 1:
            for it in items:
                yield fn(it)
            return
        import multiprocessing
        if self._pool is None:
            self._pool = multiprocessing.get_context('fork').Pool(self.workers)
        for r in self._pool.imap_unordered(fn, items, chunksize):
            yield r

    def pmap_isolated(self, fn, items, timeout=900):
        """Like pmap, but every item runs in its own forked process, so code under test that kills the
        interpreter (segfault in a C extension, fatal error) costs one item, not the run.  Yields
        (item, result) where result is {'died': exitcode} if the process ended without an answer."""
        import multiprocessing
        ctxm = multiprocessing.get_context('fork')
        items = list(items)
        pending = list(enumerate(items))
        running = {}
        import time as _t

        def child(conn, it):
            try:
                conn.send(fn(it))
            except BaseException as e:     # noqa
                try:
                    conn.send({'harness_error': 'exception in isolated worker: %r' % (e,)})
                except Exception:   # noqa
                    pass
            finally:
                conn.close()

        while pending or running:
            while pending and len(running) < self.workers:
                idx, it = pending.pop(0)
                parent, chld = ctxm.Pipe(duplex=False)
                p = ctxm.Process(target=child, args=(chld, it))
                p.start()
                chld.close()
                running[idx] = (p, parent, it, _t.time())
            done = []
            for idx, (p, conn, it, t0) in running.items():
                res = None
                if conn.poll(0):
                    try:
                        res = conn.recv()
                    except EOFError:
                        res = None
                    p.join(5)
                    if res is None:
                        res = {'died': p.exitcode}
                    done.append((idx, it, res))
                elif not p.is_alive():
                    if conn.poll(0):
                        continue
                    done.append((idx, it, {'died': p.exitcode}))
                elif _t.time() - t0 > timeout:
                    p.kill()
                    p.join(5)
                    done.append((idx, it, {'died': 'timeout'}))
            for idx, it, res in done:
                p, conn, _, _ = running.pop(idx)
                conn.close()
                yield it, res
            if not done:
                _t.sleep(0.02)

    def close(self):
        if self._pool is not None:
            self._pool.close()
            self._pool.join()
            self._pool = None


def load_known():
    path = os.path.join(HERE, 'known_findings.json')
    if not os.path.exists(path):
        return []
    with open(path) as f:
        return json.load(f).get('findings', [])


def match_known(pid, key, known):
    for entry in known:
        if entry.get('property') != pid or entry.get('status') != 'known':
            continue
        for pat in entry.get('keys', []):
            if key == pat or fnmatch.fnmatchcase(key, pat):
                return entry
    return None


def write_replay(pid, key, artefact):
    d = os.path.join(os.environ.get('VERIF_REPLAY_DIR') or os.path.join(HERE, 'replays'), pid)
    os.makedirs(d, exist_ok=True)
    body = {'property': pid, 'key': key, 'artefact': artefact}
    text = json.dumps(body, indent=1, sort_keys=True, default=str)
    h = hashlib.sha1(text.encode()).hexdigest()[:12]
    path = os.path.join(d, h + '.json')
    with open(path, 'w') as f:
        f.write(text)
    return path


def replay_in_fresh_process(path):
    """Ground rule 5: a violation is reported only if it reproduces in a fresh process.
    Returns True (reproduced), False (did not), None (check has no replayer)."""
    env = dict(os.environ)
    env.setdefault('PYTHONHASHSEED', '0')
    p = subprocess.run([sys.executable, '-m', 'vf.replay', path], cwd=HERE, env=env,
                       stdout=subprocess.PIPE, stderr=subprocess.STDOUT, timeout=600)
    out = p.stdout.decode('utf-8', 'replace')
    if p.returncode == 1:
        return True, out
    if p.returncode == 0:
        return False, out
    if p.returncode == 3:
        return None, out
    return False, out


def main(argv=None):
    ap = argparse.ArgumentParser()
    ap.add_argument('pid')
    ap.add_argument('--tier', default=os.environ.get('VERIF_TIER', 'quick'), choices=['quick', 'thorough'])
    ap.add_argument('--seed', type=int, default=int(os.environ.get('VERIF_SEED', '0') or 0))
    ap.add_argument('--no-replay', action='store_true')
    args = ap.parse_args(argv)
    pid = args.pid
    os.environ.setdefault('PYTHONHASHSEED', '0')
    t0 = time.time()
    # one scratch root per run (outside /repo and /verif); workers create their dirs inside, all removed at the end
    import atexit
    import shutil
    import tempfile
    run_root = tempfile.mkdtemp(prefix='vfrun-%s-' % pid, dir=os.environ.get('VERIF_TMP_BASE') or tempfile.gettempdir())
    os.environ['VERIF_TMP'] = run_root
    main_pid = os.getpid()

    def _cleanup():
        if os.getpid() == main_pid:
            shutil.rmtree(run_root, ignore_errors=True)
    atexit.register(_cleanup)
    ctx = Ctx(pid, args.tier, args.seed)
    evidence_path = os.path.join(os.environ.get('VERIF_EVIDENCE_DIR') or os.path.join(HERE, 'evidence'), pid + '.json')
    os.makedirs(os.path.dirname(evidence_path), exist_ok=True)
    known = load_known()
    try:
        mod = importlib.import_module('vf.checks.' + pid)
        from . import toolchain
        toolchain.setup_repo()
        mod.run(ctx)
        ctx.close()
    except HarnessError as e:
        print('HARNESS-ERROR property=%s %s' % (pid, e))
        return 2
    except Exception:
        traceback.print_exc()
        print('HARNESS-ERROR property=%s unexpected exception in check' % pid)
        return 2

    new, known_hits = [], {}
    for key in sorted(ctx.violations):
        entry = match_known(pid, key, known)
        if entry is not None:
            known_hits.setdefault(entry['id'], [entry, 0])
            known_hits[entry['id']][1] += ctx.violation_counts[key]
        else:
            new.append(key)
    for eid, (entry, n) in sorted(known_hits.items()):
        print('KNOWN-FINDING: property=%s %s [%s; %d cases]' % (pid, entry['text'], eid, n))

    exit_code = 0
    reported = 0
    unreproduced = 0
    for key in new:
        artefact = ctx.violations[key][0]
        path = write_replay(pid, key, artefact)
        status = None
        if not args.no_replay and hasattr(mod, 'replay') and reported + unreproduced < 10:
            try:
                status, out = replay_in_fresh_process(path)
            except subprocess.TimeoutExpired:
                status, out = False, 'replay timed out'
        if status is False:
            unreproduced += 1
            print('HARNESS-ERROR property=%s violation did not reproduce in a fresh process: key=%s replay=%s' % (
                pid, key, path))
            continue
        reported += 1
        exit_code = 1
        print('VIOLATION property=%s replay=%s' % (pid, path))
        print('  key=%s cases=%d' % (key, ctx.violation_counts[key]))
        detail = artefact.get('detail') if isinstance(artefact, dict) else None
        if detail:
            print('  ' + str(detail)[:600])
    if unreproduced and not exit_code:
        exit_code = 2

    cov = ctx.cov
    cov['known_findings_matched'] = {eid: n for eid, (e, n) in known_hits.items()}
    cov['violation_keys'] = {k: ctx.violation_counts[k] for k in new}
    if not cov['samples']:
        cov['samples'] = ['(no sample recorded)']
    ev = {
        'property_id': pid,
        'tier': args.tier,
        'seed': args.seed,
        'level': LEVELS.get(pid, 'model_checking'),
        'coverage': cov,
        'assumptions': ctx.assumptions,
        'wall_s': round(time.time() - t0, 2),
        'violations': reported,
    }
    with open(evidence_path, 'w') as f:
        json.dump(ev, f, indent=1, sort_keys=True, default=str)
    print('%s %s: states=%d transitions=%d executions=%d evaluations=%d nontrivial=%d exhaustive=%s '
          'violations=%d known=%d wall=%.1fs' % (
              pid, args.tier, cov['states'], cov['transitions'], cov['traces_validated_against_impl'],
              cov['evaluations'], cov['distinct_nontrivial'], cov['exhaustive'], reported, len(known_hits),
              time.time() - t0))
    return exit_code


if __name__ == '__main__':
    sys.exit(main())
