"""C20 prophyc output is a deterministic function of its inputs."""
import hashlib
import itertools
import os
import shutil
import subprocess
import sys
import traceback

from .. import toolchain as T
from ..run import HarnessError

RICH = '''const K = 3;
const L = K * 2 + 1;
enum E { E_A = 1, E_B = 2, E_C = 0x80000000 };
typedef u16 T;
typedef T TT;
struct F { u8 p; TT q; E e; };
struct D { u8 v<>; F f<2>; };
union U { 1: u8 a; 2: F f; 3: u64 c; };
struct X { u32 n; F f[K]; D d; U u; U* ou; u16 x<@n>; bytes b<4>; u64 g<...>; };
'''
FILES = {
    'single': {'inputs': {'rich.prophy': RICH}, 'mode': None, 'extra': {}},
    'includes': {'inputs': {
        'a.prophy': 'const KA = 2;\nstruct A { u8 a[KA]; };\n',
        'b.prophy': '#include "a.prophy"\nstruct B { A a; u16 x; };\n',
        'c.prophy': '#include "a.prophy"\nenum EC { EC_1 = 1 };\nstruct C { A a<>; EC e; };\n',
        'x.prophy': '#include "b.prophy"\n#include "c.prophy"\nstruct X { B b; C c; };\n'}, 'mode': None, 'extra': {}},
    'independent': {'inputs': {
        'p.prophy': 'struct P { u8 a; u64 b; };\n',
        'q.prophy': 'enum Q { Q_A = 1 };\nstruct QS { Q q<>; };\n',
        'r.prophy': 'union R { 1: u8 a; 2: u32 b; };\n'}, 'mode': None, 'extra': {}},
    'isar': {'inputs': {'m.xml': '''<xml>
<constant name="K" value="3"/><constant name="L" value="K + 1"/>
<typedef name="T" primitiveType="16 bit integer unsigned"/><typedef name="TT" type="T"/>
<enum name="E"><enum-member name="E_A" value="1"/><enum-member name="E_N" value="-1"/></enum>
<struct name="X"><member name="f" type="F"><dimension size="K"/></member><member name="u" type="U"/></struct>
<struct name="F"><member name="p" type="u8"/><member name="q" type="TT"/><member name="e" type="E"/></struct>
<union name="U"><member name="a" type="u8" discriminatorValue="1"/><member name="f" type="F" discriminatorValue="2"/></union>
<message name="M"><member name="x" type="X"/><member name="v" type="u16"><dimension isVariableSize="true"/></member></message>
</xml>
'''}, 'mode': 'isar', 'extra': {}},
    'isar_patch': {'inputs': {'m.xml': '''<xml>
<struct name="F"><member name="p" type="u8"/><member name="q" type="u16"/></struct>
<struct name="X"><member name="n" type="u32"/><member name="a" type="u8"><dimension size="4"/></member><member name="b" type="F"/></struct>
<union name="U"><member name="a" type="u8" discriminatorValue="1"/><member name="f" type="F" discriminatorValue="2"/></union>
</xml>
''', 'n.xml': '<xml><struct name="Y"><member name="z" type="u64"/></struct></xml>\n'}, 'mode': 'isar',
                   'extra': {'patch.txt': 'X dynamic a n\nX insert 999 g u16\nX greedy g\nU struct\nY rename Z\n'}},
    'isar_include': {'inputs': {
        'base.xml': '<xml><struct name="I"><member name="x" type="u8"/></struct><constant name="IK" value="2"/></xml>\n',
        'top.xml': '<xml><xi:include xmlns:xi="http://www.w3.org/2001/XInclude" href="base.xml"/>'
                   '<struct name="S"><member name="i" type="I"><dimension size="IK"/></member></struct></xml>\n'},
        'mode': 'isar', 'extra': {}},
}
FILES['same_named_includes'] = {'inputs': {
    'a/main_a.prophy': '#include "defs.prophy"\n#include "common.prophy"\nstruct MA { DA d[KA]; C c; };\n',
    'b/main_b.prophy': '#include "defs.prophy"\n#include "common.prophy"\nstruct MB { DB d[KB]; C c; };\n'},
    'mode': None, 'incdirs': ['inc'],
    'extra': {'a/defs.prophy': 'const KA = 2;\nstruct DA { u8 a; };\n', 'b/defs.prophy': 'const KB = 5;\nstruct DB { u64 b; };\n',
              'inc/common.prophy': 'struct C { u16 c; };\n'}}
FILES['odd_names'] = {'inputs': {'radio-link.prophy': 'struct R { u8 a; };\n', 'x.y.prophy': 'struct XY { u16 b<>; };\n',
                                 '1st file.prophy': 'enum F { F_A = 1 };\n'}, 'mode': None, 'extra': {}}
FILES['nested_include'] = {'inputs': {'main.prophy': '#include "sub/inner.prophy"\nstruct M { I i; };\n'}, 'mode': None,
                           'incdirs': ['.'],
                           'extra': {'sub/inner.prophy': '#include "leaf.prophy"\nstruct I { u8 a[LEAF]; };\n',
                                     'sub/leaf.prophy': 'const LEAF = 3;\n', 'leaf.prophy': 'const LEAF = 7;\n'}}
FILES['nested_include_via_I'] = {'inputs': {'main.prophy': '#include "sub/inner.prophy"\nstruct M { I i; };\n'}, 'mode': None,
                                 'incdirs': ['.', 'other'],
                                 'extra': {'sub/inner.prophy': '#include "leaf.prophy"\nstruct I { u8 a[LEAF]; };\n',
                                           'leaf.prophy': 'const LEAF = 7;\n', 'other/leaf.prophy': 'const LEAF = 9;\n'}}
# expressions and array sizes that mention enumerators of several enums defined after them: the order in which the
# sort pulls those enums forward must not depend on anything but the input
FILES['isar_cross_enum'] = {'inputs': {'m.xml': '''<xml>
<constant name="KK" value="EA_X + EB_Y + EC_Z"/>
<enum name="EM"><enum-member name="EM_A" value="EB_Y + EC_Z"/><enum-member name="EM_B" value="EA_X * 2 + ED_W"/></enum>
<typedef name="TS" type="S"/>
<struct name="S"><member name="a" type="u8"><dimension size="EC_Z"/></member><member name="b" type="u16"><dimension size="ED_W"/></member><member name="m" type="EM"/><member name="c" type="u8"><dimension size="EA_X" size2="EB_Y"/></member><member name="d" type="u8"><dimension isVariableSize="true" size="EC_Z" size2="ED_W"/></member></struct>
<typedef name="TS2" type="S2"/>
<struct name="S2"><member name="c" type="u8"><dimension size="EP_X" size2="EQ_Y"/></member><member name="d" type="u16"><dimension isVariableSize="true" size="ER_Z" size2="EP_X"/></member></struct>
<enum name="EP"><enum-member name="EP_X" value="2"/></enum>
<enum name="EQ"><enum-member name="EQ_Y" value="3"/></enum>
<enum name="ER"><enum-member name="ER_Z" value="2"/></enum>
<enum name="EA"><enum-member name="EA_X" value="1"/></enum>
<enum name="EB"><enum-member name="EB_Y" value="2"/></enum>
<enum name="EC"><enum-member name="EC_Z" value="3"/></enum>
<enum name="ED"><enum-member name="ED_W" value="4"/></enum>
</xml>
'''}, 'mode': 'isar', 'extra': {}}
# two inputs that spell an array size alike while the constant in it differs: nothing computed for one may serve the other
FILES['isar_same_expression'] = {'inputs': {
    'first.xml': '<xml><constant name="BLOCK" value="2"/><struct name="A"><member name="x" type="u8"><dimension size="BLOCK*2"/></member><member name="t" type="u32"/></struct></xml>\n',
    'second.xml': '<xml><constant name="BLOCK" value="3"/><struct name="B"><member name="y" type="u8"><dimension size="BLOCK*2"/></member><member name="t" type="u32"/></struct></xml>\n'},
    'mode': 'isar', 'extra': {}}
GENS = ['--python_out', '--cpp_out', '--cpp_full_out', '--prophy_out']


def run_case(case, inputs_order, hashseed, cwd_kind, inc_spelling='relative'):
    """One fresh `python -m prophyc` process.  Returns (rc, {output file: sha1}, stderr tail)."""
    spec = FILES[case]
    root = T.fresh_dir('c20')
    try:
        src = os.path.join(root, 'work', 'src')
        out = os.path.join(root, 'work', 'out')
        other = os.path.join(root, 'elsewhere')
        for d in (src, out, other):
            os.makedirs(d)
        for fn, text in list(spec['inputs'].items()) + list(spec['extra'].items()):
            os.makedirs(os.path.dirname(os.path.join(src, fn)), exist_ok=True)
            with open(os.path.join(src, fn), 'w') as f:
                f.write(text)
        cwd = {'input-dir': src, 'parent': os.path.join(root, 'work'), 'unrelated': other}[cwd_kind]

        def rel(p):
            return os.path.relpath(p, cwd) if cwd_kind != 'unrelated' else p
        argv = [sys.executable, '-m', 'prophyc']
        if spec['mode']:
            argv.append('--' + spec['mode'])
        if 'patch.txt' in spec['extra']:
            argv += ['-p', rel(os.path.join(src, 'patch.txt'))]
        for inc in spec.get('incdirs', []):
            p_inc = os.path.normpath(os.path.join(src, inc))
            if inc_spelling == 'none':
                continue
            argv += ['-I', p_inc if inc_spelling == 'absolute' or cwd_kind == 'unrelated' else (os.path.relpath(p_inc, cwd) or '.')]
        for g in GENS:
            argv += [g, rel(out)]
        argv += [rel(os.path.join(src, fn)) for fn in inputs_order]
        # the nested-include case also checks *what* was resolved: the leaf next to the including file

        env = dict(os.environ)
        env['PYTHONHASHSEED'] = str(hashseed)
        env['PYTHONPATH'] = os.path.abspath(T.REPO)
        p = subprocess.run(argv, cwd=cwd, env=env, stdout=subprocess.PIPE, stderr=subprocess.PIPE)
        outs = {}
        for fn in sorted(os.listdir(out)):
            with open(os.path.join(out, fn), 'rb') as f:
                outs[fn] = f.read()
        return p.returncode, outs, p.stderr.decode('utf-8', 'replace')[-300:]
    finally:
        shutil.rmtree(root, ignore_errors=True)


def configurations(case, tier):
    spec = FILES[case]
    names = sorted(spec['inputs'])
    # files that include others must still be compilable alone; "together" = all inputs in every order
    seeds = range(4) if tier == 'quick' else range(16)
    orders = list(itertools.permutations(names)) if len(names) <= 3 else \
        [tuple(names), tuple(reversed(names)), tuple(names[1:] + names[:1]), tuple(names[2:] + names[:2])]
    alone = [(n,) for n in names]
    spellings = ['relative', 'absolute'] if spec.get('incdirs') else ['relative']
    if case == 'nested_include':
        spellings.append('none')        # the include directory is the main file's own: naming it must change nothing
    for hs in seeds:
        for cwd_kind in ('input-dir', 'parent', 'unrelated'):
            for order in orders + alone:
                if tier == 'quick' and hs >= 2 and cwd_kind != 'input-dir' and len(order) > 1 and order != orders[0]:
                    continue
                for sp in spellings:
                    yield order, hs, cwd_kind, sp


def judge(job):
    case, tier = job
    T.setup_repo()
    out = {'viol': [], 'runs': 0, 'files': 0, 'samples': [], 'configs': 0}
    seen = {}

    def viol(key, art):
        seen[key] = seen.get(key, 0) + 1
        out['viol'].append((key, art if seen[key] <= 2 else None))

    try:
        reference = {}     # output file -> (bytes, configuration that produced it)
        for order, hs, cwd_kind, sp in configurations(case, tier):
            rc, outs, err = run_case(case, order, hs, cwd_kind, sp)
            out['runs'] += 1
            out['configs'] += 1
            cfg = {'inputs': list(order), 'PYTHONHASHSEED': hs, 'cwd': cwd_kind, 'include_dirs': sp}
            if rc != 0:
                viol('run-fails|%s' % case, {'case': case, 'config': cfg, 'detail': 'prophyc exit %s: %s' % (rc, err)})
                continue
            expected_stems = set(os.path.splitext(os.path.basename(fn))[0] for fn in order)
            got_stems = set(fn[:-3] for fn in outs if fn.endswith('.py'))
            if not expected_stems <= got_stems:
                viol('missing-output|%s' % case, {'case': case, 'config': cfg, 'detail': 'outputs %s' % sorted(outs)})
            for fn, data in outs.items():
                out['files'] += 1
                if fn not in reference:
                    reference[fn] = (data, cfg)
                elif reference[fn][0] != data:
                    other = reference[fn][1]
                    dims = [k for k in ('inputs', 'PYTHONHASHSEED', 'cwd', 'include_dirs') if other[k] != cfg[k]]
                    what = []
                    for k in dims:
                        if k == 'inputs':
                            what.append('alone-vs-together' if len(other['inputs']) != len(cfg['inputs']) else 'input-order')
                        else:
                            what.append(k)
                    viol('output-differs|%s|%s' % (fn.split('.', 1)[1], '+'.join(what)),
                         {'case': case, 'config': cfg, 'other_config': other, 'file': fn,
                          'detail': '%s differs between %s and %s (sha1 %s vs %s)' % (
                              fn, other, cfg, hashlib.sha1(reference[fn][0]).hexdigest()[:10], hashlib.sha1(data).hexdigest()[:10])})
        if reference:
            fn = sorted(reference)[0]
            out['samples'].append({'case': case, 'outputs': sorted(reference), 'sha1_of_' + fn: hashlib.sha1(reference[fn][0]).hexdigest()})
    except Exception:       # noqa
        out['harness_error'] = traceback.format_exc()
    return out


def run(ctx):
    cases = sorted(FILES)
    for res in ctx.pmap(judge, [(c, ctx.tier) for c in cases]):
        if 'harness_error' in res:
            raise HarnessError(res['harness_error'])
        ctx.cov['states'] += res['configs']
        ctx.cov['transitions'] += res['files']
        ctx.cov['traces_validated_against_impl'] += res['runs']
        ctx.cov['evaluations'] += res['runs']
        ctx.cov['distinct_nontrivial'] += res['configs']
        for s in res['samples']:
            ctx.sample(s)
        for key, art in res['viol']:
            ctx.violation_counts[key] = ctx.violation_counts.get(key, 0) + 1
            if art is not None and len(ctx.violations.setdefault(key, [])) < 3:
                ctx.violations[key].append(art)
    for key in [k for k, v in ctx.violations.items() if not v]:
        del ctx.violations[key]
    ctx.cov['rule'] = ('states = configurations: %d schema sets (single file, diamond includes, independent files, isar, isar + '
                       'patch, isar include) x PYTHONHASHSEED x working directory {input dir, parent, unrelated} x every '
                       'permutation of the input files on the command line plus every file alone, all four generators; each '
                       'is one fresh `python -m prophyc` process; transitions = output files compared byte for byte with the '
                       'first configuration that produced the same file.' % len(cases))
    ctx.assumptions += ['quick tier: hash seeds 0..3 (2 and 3 only for the canonical order outside the input directory); thorough: 0..15']


def replay(art):
    T.setup_repo()
    case = art['case']
    cfg = art['config']
    rc, outs, err = run_case(case, tuple(cfg['inputs']), cfg['PYTHONHASHSEED'], cfg['cwd'], cfg.get('include_dirs', 'relative'))
    if rc != 0:
        return 'prophyc fails: %s' % err
    if 'other_config' in art:
        o = art['other_config']
        rc2, outs2, err2 = run_case(case, tuple(o['inputs']), o['PYTHONHASHSEED'], o['cwd'], o.get('include_dirs', 'relative'))
        fn = art['file']
        if outs.get(fn) != outs2.get(fn):
            import difflib
            a = (outs2.get(fn) or b'').decode('utf-8', 'replace').splitlines()
            b = (outs.get(fn) or b'').decode('utf-8', 'replace').splitlines()
            return '%s differs between %s and %s:\n%s' % (fn, o, cfg, '\n'.join(list(difflib.unified_diff(a, b, lineterm=''))[:30]))
    return None
