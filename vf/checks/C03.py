"""C03 Python and generated C++ full codec are wire-compatible for every message."""
from .. import cppfull


def run(ctx):
    cppfull.run_cpp(ctx, ['C03'], ops=('build', 'reuse'))
    ctx.assumptions += ['the canonical bytes fed to C++ are those of the reference model; C01 establishes that the Python '
                        'codec emits exactly these bytes, so "what Python wrote" and "the documented bytes" coincide',
                        'x86-64, clang++-14 -O0 with ASan+UBSan; native == little on this host']


def replay(art):
    return cppfull.replay(art, 'C03')
