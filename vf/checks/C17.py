"""C17 Front-ends agree: isar (+patch) and prophy text give the same wire layout."""
import itertools
import os
import shutil
import traceback

from .. import schema as S, refmodel as R, universe as U, values as V, toolchain as T, sse, pyjudge
from ..run import HarnessError

M = S.M
ISAR_PRIM = {'u8': '8 bit integer unsigned', 'u16': '16 bit integer unsigned', 'u32': '32 bit integer unsigned',
             'u64': '64 bit integer unsigned', 'i8': '8 bit integer signed', 'i16': '16 bit integer signed',
             'i32': '32 bit integer signed', 'i64': '64 bit integer signed', 'float': '32 bit float',
             'double': '64 bit float'}
ISAR_TYPE = {'float': 'r32', 'double': 'r64'}


def isar_type(t):
    return ISAR_TYPE.get(t, t)


def split_size(n):
    """isar spells a two-dimensional extent as size x size2"""
    if isinstance(n, int) and n >= 4 and n % 2 == 0:
        return 'size="2" size2="%d"' % (n // 2)
    return 'size="%s"' % n


def render_isar(defs, messages=()):
    """(xml text, patch lines).  What isar cannot say (greedy arrays, bytes) is completed by patch rules.
    Structs named in `messages` are rendered as <message>: there every variable-size array is dynamic,
    whatever its size attribute says."""
    out, patch = ['<xml>'], []
    for d in defs:
        if isinstance(d, S.Const):
            out.append('<constant name="%s" value="%s"/>' % (d.name, d.expr))
        elif isinstance(d, S.Enum):
            ms = ''.join('<enum-member name="%s" value="%s"/>' % (n, isar_enum_value(v)) for n, v in d.members)
            out.append('<enum name="%s">%s</enum>' % (d.name, ms))
        elif isinstance(d, S.Typedef):
            if d.target in ISAR_PRIM:
                out.append('<typedef name="%s" primitiveType="%s"/>' % (d.name, ISAR_PRIM[d.target]))
            else:
                out.append('<typedef name="%s" type="%s"/>' % (d.name, d.target))
        elif isinstance(d, S.Union):
            ms = ''.join('<member name="%s" type="%s" discriminatorValue="%s"/>' % (a.name, isar_type(a.type), a.disc)
                         for a in d.arms)
            out.append('<union name="%s">%s</union>' % (d.name, ms))
        elif isinstance(d, S.Struct):
            ms = []
            for m in d.members:
                t = 'u8' if m.type == 'bytes' else isar_type(m.type)
                if m.type == 'bytes':
                    patch.append('%s type %s byte' % (d.name, m.name))
                if m.form == S.PLAIN:
                    ms.append('<member name="%s" type="%s"/>' % (m.name, t))
                elif m.form == S.OPT:
                    ms.append('<member name="%s" type="%s" optional="true"/>' % (m.name, t))
                elif m.form == S.FIXED:
                    ms.append('<member name="%s" type="%s"><dimension %s/></member>' % (m.name, t, split_size(m.arg)))
                elif m.form == S.LIMITED:
                    ms.append('<member name="%s" type="%s"><dimension isVariableSize="true" %s/></member>' % (
                        m.name, t, split_size(m.arg)))
                elif m.form == S.DYNAMIC:
                    if d.name in messages:
                        # in a message the size attribute of a variable-size array is only a hint
                        ms.append('<member name="%s" type="%s"><dimension isVariableSize="true" size="7"/></member>' % (m.name, t))
                    else:
                        ms.append('<member name="%s" type="%s"><dimension isVariableSize="true"/></member>' % (m.name, t))
                elif m.form == S.EXT:
                    ms.append('<member name="%s" type="%s"><dimension variableSizeFieldName="@%s"/></member>' % (m.name, t, m.arg))
                elif m.form == S.GREEDY:
                    ms.append('<member name="%s" type="%s"><dimension size="1"/></member>' % (m.name, t))
                    patch.append('%s greedy %s' % (d.name, m.name))
            tag = 'message' if d.name in messages else 'struct'
            out.append('<%s name="%s">%s</%s>' % (tag, d.name, ''.join(ms), tag))
    out.append('</xml>')
    return '\n'.join(out) + '\n', patch


def isar_enum_value(v):
    iv = R.to_int(v)
    # isar spells values >= 2**31 as negative numbers (the parser turns them into two's complement)
    if iv >= 2 ** 31:
        return str(iv - 2 ** 32)
    return str(v)


def compile_isar(defs, workdir=None, extra_patch=(), messages=()):
    xml, patch = render_isar(defs, messages)
    patch = list(patch) + list(extra_patch)
    d = workdir or T.fresh_dir('c17')
    extra = []
    if patch:
        pf = os.path.join(d, 'patch.txt')
        with open(pf, 'w') as f:
            f.write('\n'.join(patch) + '\n')
        extra = ['-p', pf]
    res = T.compile_text(xml, outs=('python',), mode='isar', extra=extra, workdir=d, name='mi')
    return res, xml, patch


def judge_batch(job):
    states, tier = job
    T.setup_repo()
    out = {'viol': [], 'states': 0, 'values': 0, 'samples': [], 'rejected': [], 'types': 0}
    seen = {}

    def viol(key, art):
        seen[key] = seen.get(key, 0) + 1
        out['viol'].append((key, art if seen[key] <= 2 else None))

    try:
        defs, tops = U.batch_defs(states)
        ref = R.Ref(defs)
        text = S.render_prophy(defs)
        a = T.compile_text(text, outs=('python',))
        messages = [t for t, st in zip(tops, states)
                    if st.kind == 'struct' and not any(sym[0] == 'limited' for sym in st.symbols)]
        b, xml, patch = compile_isar(defs, messages=messages)
        try:
            if not a.ok:
                out['harness_error'] = 'prophy text of the batch rejected: %s' % a.exc
                return out
            mb = None
            import_error = None
            if b.ok:
                try:
                    mb = T.import_generated(b.files['mi.py'])
                except Exception as e:      # noqa
                    import_error = '%s: %s' % (type(e).__name__, str(e)[:200])
            if not b.ok or import_error:
                if len(states) > 1:
                    mid = len(states) // 2
                    for half in (states[:mid], states[mid:]):
                        r = judge_batch((half, tier))
                        if 'harness_error' in r:
                            return r
                        for k in ('states', 'values', 'types'):
                            out[k] += r[k]
                        out['viol'] += r['viol']
                        out['samples'] += r['samples']
                    return out
                st = states[0]
                t1, d1 = sse.state_text(st, 'X')
                x1, p1 = render_isar(d1)
                x1, p1 = render_isar(d1, ['X'] if messages else [])
                viol('isar-build-fails|%s|%s' % (b.exc_type if not b.ok else 'python-import', pyjudge._shape_key(ref, tops[0], st)),
                     {'schema': t1, 'defs': S.defs_to_json(d1), 'xml': x1, 'patch': p1, 'top': 'X', 'state': st.key,
                      'message': bool(messages),
                      'detail': 'isar (+patch) build of the same types fails: %s' % (str(b.exc)[:300] if not b.ok else import_error)})
                out['states'] += 1
                return out
            ma = T.import_generated(a.files['m.py'])
            na = dict((n.name, n) for n in a.nodes['m'])
            nb = dict((n.name, n) for n in b.nodes['mi'])
            vg = V.Values(ref, tier)
            state_of = dict(zip(tops, states))
            for d in defs:
                if not isinstance(d, (S.Struct, S.Union)):
                    continue
                out['types'] += 1
                st = state_of.get(d.name)
                x, y = na[d.name], nb.get(d.name)

                def art(detail, d=d, st=st):
                    cd = S.closure(ref.defs, [d.name])
                    x1, p1 = render_isar(cd, [d.name] if d.name in messages else [])
                    return {'schema': S.render_prophy(cd), 'defs': S.defs_to_json(cd), 'xml': x1, 'patch': p1, 'top': d.name,
                            'message': d.name in messages,
                            'state': st.key if st else d.name, 'detail': detail}
                if y is None or (x.byte_size, x.alignment, x.kind) != (y.byte_size, y.alignment, y.kind):
                    viol('model-layout-differs|%s' % pyjudge._shape_key(ref, d.name, st),
                         art('prophy front-end: %s, isar front-end: %s' % ((x.byte_size, x.alignment, x.kind),
                                                                          y and (y.byte_size, y.alignment, y.kind))))
                    continue
                if st is None:
                    continue
                out['states'] += 1
                ca, cb = getattr(ma, d.name), getattr(mb, d.name)
                vals, _ = vg.enumerate(d.name, 24 if tier == 'quick' else 128)
                for v in vals:
                    out['values'] += 1
                    try:
                        ea = T.build(ref, d.name, v, ca()).encode('<')
                        eb = T.build(ref, d.name, v, cb()).encode('<')
                    except Exception as e:      # noqa
                        viol('encode-raises|%s|%s' % (type(e).__name__, pyjudge._shape_key(ref, d.name, st)),
                             dict(art(str(e)[:200]), value=V.tree_to_json(v)))
                        break
                    if ea != eb:
                        viol('bytes-differ|' + sse.diagnose(ref, d.name, ea, ref.encode(d.name, v, '<')[1], eb),
                             dict(art('prophy-built codec: %s\nisar-built codec:   %s' % (ea.hex(), eb.hex())),
                                  value=V.tree_to_json(v)))
                        break
                if len(out['samples']) < 1 and patch:
                    out['samples'].append({'state': st.key, 'patch': patch[:3]})
        finally:
            for r in (a, b):
                if r.outdir:
                    shutil.rmtree(r.outdir, ignore_errors=True)
    except Exception:       # noqa
        out['harness_error'] = traceback.format_exc()
    return out


# ---------------------------------------------------------------------------
# patch semantics
# ---------------------------------------------------------------------------

PATCH_BASE = [S.Struct('F', [M('p', 'u8'), M('q', 'u16')]),
              S.Union('U', [S.Arm(1, 'u8', 'x'), S.Arm(2, 'F', 'y')]),
              S.Struct('X', [M('n', 'u32'), M('a', 'u8', S.FIXED, 4), M('o', 'u16', S.OPT), M('b', 'u16')])]


def X(members):
    return S.Struct('X', members)


def applicable_rules():
    """(patch lines, equivalent definitions in the prophy language)"""
    F, Un, _ = PATCH_BASE
    n, a, o, b = M('n', 'u32'), M('a', 'u8', S.FIXED, 4), M('o', 'u16', S.OPT), M('b', 'u16')
    return [
        (['X type b u32'], [F, Un, X([n, a, o, M('b', 'u32')])]),
        (['X type b F'], [F, Un, X([n, a, o, M('b', 'F')])]),
        (['X insert 0 z u8'], [F, Un, X([M('z', 'u8'), n, a, o, b])]),
        (['X insert 1 z u64'], [F, Un, X([n, M('z', 'u64'), a, o, b])]),
        (['X insert 999 z u8'], [F, Un, X([n, a, o, b, M('z', 'u8')])]),
        (['X remove o'], [F, Un, X([n, a, b])]),
        (['X remove n', 'X remove b'], [F, Un, X([a, o])]),
        (['X dynamic a n'], [F, Un, X([n, M('a', 'u8', S.EXT, 'n'), o, b])]),
        (['X dynamic o n'], [F, Un, X([n, a, M('o', 'u16', S.EXT, 'n'), b])]),
        (['X greedy b'], [F, Un, X([n, a, o, M('b', 'u16', S.GREEDY)])]),
        (['X static b 3'], [F, Un, X([n, a, o, M('b', 'u16', S.FIXED, 3)])]),
        (['X static o 2'], [F, Un, X([n, a, M('o', 'u16', S.FIXED, 2), b])]),
        (['X limited a n'], [F, Un, S.Struct('X', [M('a', 'u8', S.LIMITED, 4), o, b])]),
        (['U struct'], [F, S.Struct('U', [M('x', 'u8'), M('y', 'F')]), X([n, a, o, b])]),
        (['X rename Y'], [F, Un, S.Struct('Y', [n, a, o, b])]),
        (['X rename b c'], [F, Un, X([n, a, o, M('c', 'u16')])]),
        # rules keyed on the new name address a message that is absent from the input: they are ignored, in either order
        (['X rename Y', 'Y static b 3'], [F, Un, S.Struct('Y', [n, a, o, b])]),
        (['Y static b 3', 'X rename Y'], [F, Un, S.Struct('Y', [n, a, o, b])]),
        (['X rename Y', 'Y insert 0 z u8', 'Y remove o'], [F, Un, S.Struct('Y', [n, a, o, b])]),
        (['X rename b c', 'X type c u32'], [F, Un, X([n, a, o, M('c', 'u32')])]),
        (['X type b u32', 'X rename b c'], [F, Un, X([n, a, o, M('c', 'u32')])]),
        (['U rename y w'], [F, S.Union('U', [S.Arm(1, 'u8', 'x'), S.Arm(2, 'F', 'w')]), X([n, a, o, b])]),
        (['X insert 4 g u8', 'X greedy g'], [F, Un, X([n, a, o, b, M('g', 'u8', S.GREEDY)])]),
        (['X type a byte'], [F, Un, X([n, M('a', 'bytes', S.FIXED, 4), o, b])]),
    ]


ABSENT = ['Absent type a u8', 'Absent insert 0 z u8', 'Absent remove a', 'Absent dynamic a n', 'Absent greedy a',
          'Absent static a 3', 'Absent limited a n', 'Absent struct', 'Absent rename Other', 'Absent rename a b',
          'Absent bogus rule']
INAPPLICABLE = ['X type nosuch u8', 'X type b', 'X insert x z u8', 'X insert 0 z', 'X remove nosuch', 'X remove',
                'X dynamic nosuch n', 'X dynamic a', 'X greedy nosuch', 'X greedy', 'X static nosuch 3', 'X static b',
                'X limited nosuch n', 'X limited a nosuchsizer', 'X limited a b', 'X struct', 'U struct extra', 'U type x u8',
                'U insert 0 z u8', 'U remove x', 'X rename nosuch c', 'X rename', 'X rename a b c', 'X bogus', 'F bogus x']


def judge_patch(job):
    tier, = job
    T.setup_repo()
    out = {'viol': [], 'cases': 0, 'samples': []}
    seen = {}

    def viol(key, art):
        seen[key] = seen.get(key, 0) + 1
        out['viol'].append((key, art if seen[key] <= 2 else None))

    try:
        base_res, base_xml, _ = compile_isar(PATCH_BASE)
        base_py = open(base_res.files['mi.py']).read()
        shutil.rmtree(base_res.outdir, ignore_errors=True)
        for lines, equiv in applicable_rules():
            out['cases'] += 1
            res, xml, patch = compile_isar(PATCH_BASE, extra_patch=lines)
            art = {'patch_case': True, 'xml': xml, 'patch': lines, 'equivalent': S.render_prophy(equiv),
                   'equiv_defs': S.defs_to_json(equiv)}
            try:
                if not res.ok:
                    viol('applicable-rule-fails|%s' % lines[0].split()[1], dict(art, detail='%s: %s' % (res.exc_type, str(res.exc)[:200])))
                    continue
                ref = R.Ref(equiv)
                e = T.compile_text(S.render_prophy(equiv), outs=('python',))
                if not e.ok:
                    out['harness_error'] = 'equivalent schema rejected: %s\n%s' % (e.exc, S.render_prophy(equiv))
                    return out
                try:
                    mi = T.import_generated(res.files['mi.py'])
                    me = T.import_generated(e.files['m.py'])
                except Exception as ex:     # noqa
                    viol('patched-module-import-fails|%s' % lines[0].split()[1], dict(art, detail=str(ex)[:200]))
                    continue
                nb = dict((n.name, n) for n in res.nodes['mi'])
                ne = dict((n.name, n) for n in e.nodes['m'])
                for d in equiv:
                    x, y = ne[d.name], nb.get(d.name)
                    if y is None or (x.byte_size, x.alignment, x.kind) != (y.byte_size, y.alignment, y.kind):
                        viol('patch-layout-differs|%s' % lines[0].split()[1],
                             dict(art, detail='%s: prophy %s, isar+patch %s' % (d.name, (x.byte_size, x.alignment, x.kind),
                                                                                  y and (y.byte_size, y.alignment, y.kind))))
                        break
                    vals, _ = V.Values(ref, tier).enumerate(d.name, 16)
                    bad = False
                    for v in vals:
                        ea = T.build(ref, d.name, v, getattr(me, d.name)()).encode('<')
                        try:
                            eb = T.build(ref, d.name, v, getattr(mi, d.name)()).encode('<')
                        except Exception as ex:     # noqa
                            eb = repr(ex).encode()
                        if ea != eb:
                            viol('patch-bytes-differ|%s' % lines[0].split()[1],
                                 dict(art, detail='%s %r: prophy %s, isar+patch %s' % (d.name, v, ea.hex(), eb.hex())))
                            bad = True
                            break
                    if bad:
                        break
                shutil.rmtree(e.outdir, ignore_errors=True)
                if len(out['samples']) < 2:
                    out['samples'].append({'patch': lines, 'equivalent': S.render_def(equiv[-1])})
            finally:
                shutil.rmtree(res.outdir, ignore_errors=True)
        # the same rules applied to the prophy-text front-end (its nodes carry resolved definitions before the patch runs):
        # the model layout must be that of the equivalent schema
        Big = S.Struct('Big', [M('w', 'u64'), M('v', 'u64')])
        base2 = [PATCH_BASE[0], Big, S.Struct('X', [M('n', 'u8'), M('f', 'F'), M('t', 'u8')])]
        text_cases = [(PATCH_BASE, lines, equiv) for lines, equiv in applicable_rules()
                      if not any(l.split()[1] in ('struct',) or l.endswith(' byte') for l in lines)]
        text_cases.append((base2, ['X type f Big'], [PATCH_BASE[0], Big, S.Struct('X', [M('n', 'u8'), M('f', 'Big'), M('t', 'u8')])]))
        text_cases.append((base2, ['X type f u64'], [PATCH_BASE[0], Big, S.Struct('X', [M('n', 'u8'), M('f', 'u64'), M('t', 'u8')])]))
        for base, lines, equiv in text_cases:
            out['cases'] += 1
            d = T.fresh_dir('c17t')
            try:
                pf = os.path.join(d, 'patch.txt')
                with open(pf, 'w') as f:
                    f.write('\n'.join(lines) + '\n')
                r = T.compile_text(S.render_prophy(base), outs=('python', 'cpp_full'), extra=['-p', pf], workdir=d, name='mt')
                e = T.compile_text(S.render_prophy(equiv), outs=('python',), name='me')
                art = {'patch_case': True, 'xml': S.render_prophy(base), 'patch': lines, 'equivalent': S.render_prophy(equiv)}
                if not r.ok or not e.ok:
                    if e.ok:
                        viol('text-patch-fails|%s' % lines[0].split()[1], dict(art, detail='%s: %s' % (r.exc_type, str(r.exc)[:200])))
                    continue
                nb = dict((n.name, n) for n in r.nodes['mt'])
                ne = dict((n.name, n) for n in e.nodes['me'])
                for dd in equiv:
                    x, y = ne[dd.name], nb.get(dd.name)
                    if y is None or (x.byte_size, x.alignment, x.kind) != (y.byte_size, y.alignment, y.kind):
                        viol('text-patch-layout-differs|%s' % lines[0].split()[1],
                             dict(art, detail='%s: equivalent %s, text+patch %s' % (dd.name, (x.byte_size, x.alignment, x.kind),
                                                                                    y and (y.byte_size, y.alignment, y.kind))))
                        break
                shutil.rmtree(e.outdir, ignore_errors=True)
            finally:
                shutil.rmtree(d, ignore_errors=True)
        # two inputs of one run that both define a message of the patched name: each gets the rules, as when compiled alone
        two = {'a.xml': '<xml><struct name="X"><member name="n" type="u32"/><member name="b" type="u16"/></struct></xml>',
               'b.xml': '<xml><struct name="X"><member name="n" type="u32"/><member name="k" type="u8"/><member name="b" type="u16"/></struct></xml>'}
        for lines in (['X static b 3'], ['X insert 0 z u8', 'X rename b c'], ['X type b u64']):
            def build(names):
                d = T.fresh_dir('c17p')
                for fn in names:
                    with open(os.path.join(d, fn), 'w') as f:
                        f.write(two[fn])
                with open(os.path.join(d, 'p.txt'), 'w') as f:
                    f.write('\n'.join(lines) + '\n')
                r = T.run_prophyc(['--isar', '--python_out', d, '-p', os.path.join(d, 'p.txt')] + [os.path.join(d, fn) for fn in names])
                texts = dict((fn, open(os.path.join(d, fn[:-4] + '.py')).read()) for fn in names) if r.ok else None
                shutil.rmtree(d, ignore_errors=True)
                return r, texts
            alone = dict((fn, (build([fn])[1] or {}).get(fn)) for fn in sorted(two))
            for names in (['a.xml', 'b.xml'], ['b.xml', 'a.xml']):
                out['cases'] += 1
                r, texts = build(names)
                art = {'patch_case': True, 'xml': two, 'patch': lines, 'inputs': names}
                if not r.ok or texts is None or any(v is None for v in alone.values()):
                    viol('patch-two-inputs-fails|%s' % lines[0].split()[1], dict(art, detail='%s: %s' % (r.exc_type, str(r.exc)[:200])))
                    continue
                for fn in names:
                    if texts[fn] != alone[fn]:
                        viol('patch-not-applied-to-every-input|%s' % lines[0].split()[1],
                             dict(art, detail='%s compiled with %s differs from compiling it alone:\n%s' % (fn, names, texts[fn][-400:])))
        for line in ABSENT:
            out['cases'] += 1
            res, xml, patch = compile_isar(PATCH_BASE, extra_patch=[line])
            art = {'patch_case': True, 'xml': xml, 'patch': [line]}
            if not res.ok:
                viol('absent-message-rule-not-ignored|%s' % line.split()[1], dict(art, detail='%s: %s' % (res.exc_type, str(res.exc)[:200])))
            else:
                if open(res.files['mi.py']).read() != base_py:
                    viol('absent-message-rule-changes-output|%s' % line.split()[1], dict(art, detail='generated module differs'))
                shutil.rmtree(res.outdir, ignore_errors=True)
        for line in INAPPLICABLE:
            out['cases'] += 1
            res, xml, patch = compile_isar(PATCH_BASE, extra_patch=[line])
            art = {'patch_case': True, 'xml': xml, 'patch': [line]}
            if res.ok:
                viol('inapplicable-rule-accepted|%s' % ' '.join(line.split()[1:2]), dict(art, detail='compilation succeeded'))
                shutil.rmtree(res.outdir, ignore_errors=True)
            elif res.exc_type in ('ValueError', 'KeyError', 'AttributeError', 'TypeError', 'IndexError', 'AssertionError'):
                viol('inapplicable-rule-internal-error|%s|%s' % (res.exc_type, line.split()[1]), dict(art, detail=str(res.exc)[:200]))
    except Exception:       # noqa
        out['harness_error'] = traceback.format_exc()
    return out


def isar_universe(tier, seed):
    """States whose members isar (+patch) can express: everything of the schema universe (greedy and bytes via patch)."""
    if tier == 'thorough':
        return list(U.all_states('quick', seed, coarse=False))
    sts = list(U.codec_cells())
    sts += [st for st in U.level1('quick') if len(st.symbols) <= 2]
    l2 = list(U.level2('quick', seed, coarse=True))
    sts += l2[seed % 3::3]
    l3 = list(U.level3('quick', seed, coarse=True))
    sts += l3[::2] + [st for st in l3 if 'TN' in st.key]     # (typedefs of structs that nest a dynamic struct: all of them)
    reg = dict(U.BASE_HELPERS)
    reg['F1'] = S.Struct('F1', [S.M('a', 'u8'), S.M('b', 'u16')])
    for t in ('u8', 'u16', 'u64', 'F1', 'E'):
        for form in (('fixed', t, 6), ('limited', t, 6), ('fixed', t, 4), ('limited', t, 8)):
            sts.append(U.mk_state('struct', (form,), reg))
            sts.append(U.mk_state('struct', (('plain', 'u8'), form, ('plain', 'u16')), reg))
            sts.append(U.mk_state('struct', (form, ('dynamic', 'u8'), ('plain', 'u32')), reg))
    seen, out = set(), []
    for st in sts:
        if st.key not in seen and st.kind == 'struct':
            seen.add(st.key)
            out.append(st)
    return out


def run(ctx):
    states = isar_universe(ctx.tier, ctx.seed)
    nstates = 0
    for res in ctx.pmap(judge_batch, [(b, ctx.tier) for b in U.batches(states, 100)]):
        if 'harness_error' in res:
            raise HarnessError(res['harness_error'])
        nstates += res['states']
        ctx.cov['states'] += res['values']
        ctx.cov['transitions'] += res['values'] * 2 + res['types']
        ctx.cov['traces_validated_against_impl'] += res['values']
        ctx.cov['evaluations'] += res['values'] + res['types']
        ctx.cov['distinct_nontrivial'] += res['values']
        for s in res['samples']:
            ctx.sample(s, limit=3)
        for key, art in res['viol']:
            ctx.violation_counts[key] = ctx.violation_counts.get(key, 0) + 1
            if art is not None and len(ctx.violations.setdefault(key, [])) < 3:
                ctx.violations[key].append(art)
    res = judge_patch((ctx.tier,))
    if 'harness_error' in res:
        raise HarnessError(res['harness_error'])
    ctx.cov['patch_cases'] = res['cases']
    ctx.cov['transitions'] += res['cases']
    ctx.cov['evaluations'] += res['cases']
    for s in res['samples']:
        ctx.sample(s)
    for key, art in res['viol']:
        ctx.violation_counts[key] = ctx.violation_counts.get(key, 0) + 1
        if art is not None and len(ctx.violations.setdefault(key, [])) < 3:
            ctx.violations[key].append(art)
    for key in [k for k, v in ctx.violations.items() if not v]:
        del ctx.violations[key]
    ctx.cov['schema_states'] = nstates
    ctx.cov['rule'] = ('states = (schema state, value) pairs: every state is rendered as prophy text and as isar XML (all '
                       '<dimension> forms, optional flag, unions, typedefs via type / primitiveType, enum values >= 2**31 spelled '
                       'negative; greedy arrays and bytes completed by patch rules), both are compiled, model layouts of every '
                       'type compared and both generated codecs encode every value of V(T); transitions = encodes + type '
                       'comparisons + patch cases (every rule kind: applicable -> equals the prophy equivalent, absent message '
                       '-> ignored with identical output, inapplicable -> compilation fails; two inputs defining the patched name in one '
                       'run -> each as when compiled alone).')


def replay(art):
    T.setup_repo()
    if art.get('patch_case'):
        res = judge_patch(('quick',))
        keys = sorted(set(k for k, a in res['viol']))
        if keys:
            return 'patch semantics: %s\n%s' % (keys, [a for k, a in res['viol'] if a][0])
        return None
    defs = S.defs_from_json(art['defs'])
    ref = R.Ref(defs)
    a = T.compile_text(art['schema'], outs=('python',))
    b, xml, patch = compile_isar(defs, messages=[art['top']] if art.get('message') else [])
    if not a.ok:
        return 'prophy text rejected: %s' % a.exc
    if not b.ok:
        return 'isar build fails: %s\n%s\npatch %s' % (b.exc, xml, patch)
    ma = T.import_generated(a.files['m.py'])
    try:
        mb = T.import_generated(b.files['mi.py'])
    except Exception as e:      # noqa
        return 'module generated from the isar input does not import: %r\n%s\npatch %s' % (e, xml, patch)
    na = dict((n.name, n) for n in a.nodes['m'])
    nb = dict((n.name, n) for n in b.nodes['mi'])
    top = art['top']
    x, y = na[top], nb.get(top)
    if y is None or (x.byte_size, x.alignment, x.kind) != (y.byte_size, y.alignment, y.kind):
        return '%s\n%s\nlayout prophy %s isar %s' % (art['schema'], xml, (x.byte_size, x.alignment, x.kind),
                                                    y and (y.byte_size, y.alignment, y.kind))
    vals, _ = V.Values(ref, 'quick').enumerate(top, 24)
    for v in vals:
        ea = T.build(ref, top, v, getattr(ma, top)()).encode('<')
        eb = T.build(ref, top, v, getattr(mb, top)()).encode('<')
        if ea != eb:
            return '%s\n%s\nvalue %r\nprophy %s\nisar   %s' % (art['schema'], xml, v, ea.hex(), eb.hex())
    return None
