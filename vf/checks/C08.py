"""C08 Raw C++ struct layout coincides with the wire layout."""
from .. import cppraw, universe as U, toolchain as T
from ..run import HarnessError


def run(ctx):
    from .. import docexamples
    n, problems = docexamples.selftest(T.REPO)
    if problems:
        raise HarnessError('oracle self-test failed: ' + '; '.join(problems[:3]))
    states = list(U.all_states(ctx.tier, ctx.seed, coarse=(ctx.tier == 'quick')))
    rejected = []
    for res in ctx.pmap(cppraw.judge_layout_batch, [(b, ctx.tier) for b in U.batches(states, cppraw.RAW_BATCH)]):
        if 'harness_error' in res:
            raise HarnessError(res['harness_error'])
        ctx.cov['states'] += res['types']
        ctx.cov['transitions'] += res['items']
        ctx.cov['traces_validated_against_impl'] += res['types']
        ctx.cov['evaluations'] += res['items']
        ctx.cov['distinct_nontrivial'] += res['nontrivial']
        rejected += res['rejected']
        for s in res['samples']:
            ctx.sample(s)
        for key, art in res['viol']:
            ctx.violation_counts[key] = ctx.violation_counts.get(key, 0) + 1
            if art is not None and len(ctx.violations.setdefault(key, [])) < 3:
                ctx.violations[key].append(art)
    for key in [k for k, v in ctx.violations.items() if not v]:
        del ctx.violations[key]
    ctx.cov['schema_states'] = len(states)
    ctx.cov['rejected_states'] = len(rejected)
    ctx.cov['rejected_samples'] = [list(r) for r in rejected[:4]]
    ctx.cov['rule'] = ('states = struct / union types of every explored schema state; transitions = sizeof / alignof / offsetof '
                       'expressions evaluated by g++ on the generated <schema>.pp.hpp (members, has_ flags, counters, '
                       'discriminator, arms, and every member of every partN relative to its part) compared with the '
                       'reference wire offsets. non-trivial = type with at least one partN.')
    ctx.assumptions += ['GCC x86-64 ABI, g++ -O0; offsets of dynamic arrays are those of their first element']
    if rejected and len(rejected) > 0.05 * len(states) + 5:
        raise HarnessError('%d states rejected: %r' % (len(rejected), rejected[0]))
    # a generated header that does not compile is C12's business but must not pass silently here
    for st_key, stage, msg in rejected:
        key = 'raw|does-not-build|%s' % stage
        ctx.violation_counts[key] = ctx.violation_counts.get(key, 0) + 1
        ctx.violations.setdefault(key, []).append({'state': st_key, 'detail': msg[:600]})


def replay(art):
    if 'schema' not in art:
        return None
    return cppraw.replay_layout(art)
