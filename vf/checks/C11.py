"""C11 copy_from yields an equal, fully independent message."""
import traceback

from .. import schema as S, refmodel as R, toolchain as T, values as V, apimodel as A, ahe
from ..run import HarnessError

M = S.M


def zoo():
    E = S.Enum('E', [('E_A', 2), ('E_B', 5)])
    F = S.Struct('F', [M('p', 'u8'), M('q', 'u16')])
    D = S.Struct('D', [M('v', 'u8', S.DYNAMIC), M('w', 'u8')])
    U = S.Union('U', [S.Arm(1, 'u8', 'x'), S.Arm(2, 'F', 'y'), S.Arm(3, 'E', 'z')])
    N = S.Struct('N', [M('f', 'F'), M('u', 'U'), M('o', 'F', S.OPT)])
    UU = S.Union('UU', [S.Arm(1, 'u32', 'n'), S.Arm(2, 'U', 'u'), S.Arm(7, 'F', 'f')])
    z = {}
    z['nested'] = ([F, S.Struct('X', [M('a', 'u8'), M('f', 'F')])], 'X')
    z['opt_struct'] = ([F, S.Struct('X', [M('o', 'F', S.OPT), M('s', 'u8', S.OPT)])], 'X')
    z['opt_union'] = ([E, F, U, S.Struct('X', [M('ou', 'U', S.OPT)])], 'X')
    z['union_top'] = ([E, F, U], 'U')
    z['union_field'] = ([E, F, U, S.Struct('X', [M('u', 'U'), M('t', 'u8')])], 'X')
    z['union_of_union'] = ([E, F, U, UU], 'UU')
    z['arr_fixed_comp'] = ([F, S.Struct('X', [M('ff', 'F', S.FIXED, 2)])], 'X')
    z['arr_fixed_union'] = ([E, F, U, S.Struct('X', [M('fu', 'U', S.FIXED, 2)])], 'X')
    z['arr_limited_comp'] = ([F, S.Struct('X', [M('fl', 'F', S.LIMITED, 3)])], 'X')
    z['arr_dynamic_comp'] = ([F, S.Struct('X', [M('fd', 'F', S.DYNAMIC)])], 'X')
    z['arr_dynamic_dyn'] = ([D, S.Struct('X', [M('dd', 'D', S.DYNAMIC)])], 'X')
    z['arr_greedy_comp'] = ([F, S.Struct('X', [M('a', 'u8'), M('fg', 'F', S.GREEDY)])], 'X')
    z['arr_ext_comp'] = ([F, S.Struct('X', [M('n', 'u8'), M('fe', 'F', S.EXT, 'n')])], 'X')
    z['arr_dynamic_union'] = ([E, F, U, S.Struct('X', [M('ud', 'U', S.DYNAMIC)])], 'X')
    z['arr_limited_union'] = ([E, F, U, S.Struct('X', [M('ul', 'U', S.LIMITED, 2)])], 'X')
    z['scalar_arrays'] = ([E, S.Struct('X', [M('a', 'u16', S.DYNAMIC), M('l', 'u8', S.LIMITED, 3), M('fx', 'E', S.FIXED, 2),
                                            M('b', 'bytes', S.DYNAMIC)])], 'X')
    z['two_deep'] = ([E, F, U, N, S.Struct('X', [M('n', 'N'), M('na', 'N', S.DYNAMIC)])], 'X')
    z['opt_two_deep'] = ([E, F, U, N, S.Struct('X', [M('on', 'N', S.OPT)])], 'X')
    z['nested_dynamic'] = ([D, S.Struct('X', [M('d', 'D'), M('t', 'u16')])], 'X')
    return z


from ..apimodel import build_sparse  # noqa: E402


def values_for(ref, top, tier):
    vals, _ = V.Values(ref, tier).enumerate(top, 10 if tier == 'quick' else 60)
    # unions nested: add explicit arm switches without value (default arm values)
    return vals


def explore(job):
    name, tier = job
    T.setup_repo()
    import prophy
    out = {'name': name, 'viol': [], 'pairs': 0, 'mutations': 0, 'executions': 0, 'samples': [], 'extends': 0}
    try:
        defs, top = zoo()[name]
        text = S.render_prophy(defs)
        res = T.compile_text(text, outs=('python',))
        if not res.ok:
            out['harness_error'] = 'zoo schema %s rejected: %s' % (name, res.exc)
            return out
        mod = T.import_generated(res.files['m.py'])
        ref = R.Ref(defs)
        model = A.ApiModel(ref)
        impl = ahe.Impl(ref, mod, top, model)
        cls = getattr(mod, top)
        vals = values_for(ref, top, tier)
        dflt = model.to_tree(top, model.default(top))
        if dflt not in vals:
            vals = [dflt] + vals
        seen = {}

        def viol(key, detail, a, b, op=None, mode=''):
            seen[key] = seen.get(key, 0) + 1
            art = None
            if seen[key] <= 2:
                art = {'zoo': name, 'schema': text, 'a': V.tree_to_json(a), 'b': V.tree_to_json(b), 'mode': mode,
                       'op': A.op_text(op) if op else None, 'op_raw': repr(op), 'detail': detail}
            out['viol'].append((key, art))

        def make(tree, mode):
            if mode == 'sparse':
                return build_sparse(ref, model, top, tree, cls())
            m = T.build(ref, top, tree, cls())
            T.observe(ref, top, m)
            return m

        def same(msg, tree):
            try:
                return T.observe(ref, top, msg) == tree
            except Exception:       # noqa
                return False

        def enc(msg):
            try:
                return msg.encode('<')
            except Exception as e:      # noqa
                return 'EXC ' + type(e).__name__

        for ta in vals:
            state_a = model.from_tree(top, ta)
            ops = [op for op in A.ops_for(model, top, state_a)]
            good_ops = []
            for op in ops:
                o, new = model.apply(top, state_a, op)
                if o == A.OK and new != state_a:
                    good_ops.append((op, model.to_tree(top, new)))
            for tb in vals:
                out['pairs'] += 1
                for mode in ('sparse', 'dense'):
                    a, b = make(ta, mode), make(tb, mode)
                    kk = shape_key(ref, top, ta, tb)
                    try:
                        b.copy_from(a)
                        out['executions'] += 1
                    except Exception as e:      # noqa
                        viol('copy-raises|%s|%s' % (type(e).__name__, kk), str(e), ta, tb, None, mode)
                        continue
                    if not same(b, ta):
                        viol('copy-not-equal|%s|%s' % (mode, kk), 'b after copy %r' % (safe_obs(ref, top, b),), ta, tb, None, mode)
                        continue
                    if not same(a, ta):
                        viol('copy-changed-source|%s' % kk, 'a after copy %r' % (safe_obs(ref, top, a),), ta, tb, None, mode)
                        continue
                    if enc(a) != enc(b):
                        viol('copy-encodings-differ|%s' % kk, '%r vs %r' % (enc(a), enc(b)), ta, tb, None, mode)
                        continue
                    # follow-up mutations of either side
                    for op, newtree in good_ops:
                        for side in ('a', 'b'):
                            a2, b2 = make(ta, mode), make(tb, mode)
                            b2.copy_from(a2)
                            target, other = (a2, b2) if side == 'a' else (b2, a2)
                            got = impl.execute(target, op)
                            out['mutations'] += 1
                            out['executions'] += 1
                            if got != 'ok':
                                # C10's business; here only independence is judged
                                continue
                            if not same(other, ta):
                                viol('mutation-leaks|side=%s|%s|%s' % (side, op[1], ahe.op_kind(ref, top, op)),
                                     'after %s on %s the other message reads %r' % (A.op_text(op), side, safe_obs(ref, top, other)),
                                     ta, tb, op, mode)
                            elif not same(target, newtree):
                                viol('mutation-lost|side=%s|%s|%s' % (side, op[1], ahe.op_kind(ref, top, op)),
                                     'after %s the mutated message reads %r' % (A.op_text(op), safe_obs(ref, top, target)),
                                     ta, tb, op, mode)
                if len(out['samples']) < 2 and ta != tb:
                    out['samples'].append({'zoo': name, 'a': repr(ta)[:150], 'b': repr(tb)[:150], 'mutations': len(good_ops)})
        # ---- extend() of composite arrays copies
        r = ref.resolve(top)
        if isinstance(r, S.Struct):
            for f in ref.fields(top):
                er = ref.resolve(f.type) if f.kind == 'array' else None
                if f.kind != 'array' or f.mode == 'fixed' or not isinstance(er, (S.Struct, S.Union)):
                    continue
                for ta in vals:
                    if not ta[f.name]:
                        continue
                    for tb in vals:
                        total = len(ta[f.name]) + len(tb[f.name])
                        cap = model.sizer_capacity(top, f)
                        if cap is not None and total > cap:
                            continue
                        for how in ('array', 'slice', 'list'):
                            for side in ('src', 'dst'):
                                a, b = make(ta, 'sparse'), make(tb, 'sparse')
                                src = getattr(a, f.name)
                                arg = src if how == 'array' else (src[:] if how == 'slice' else list(src))
                                try:
                                    getattr(b, f.name).extend(arg)
                                except Exception as e:      # noqa
                                    viol('extend-raises|%s|%s' % (type(e).__name__, how), str(e), ta, tb)
                                    continue
                                out['extends'] += 1
                                out['executions'] += 1
                                want_b = dict(tb)
                                want_b[f.name] = list(tb[f.name]) + list(ta[f.name])
                                if not same(b, want_b):
                                    viol('extend-not-equal|%s' % how, 'b reads %r' % (safe_obs(ref, top, b),), ta, tb)
                                    continue
                                # mutate the source element / the stored element
                                est = model.from_tree(f.type, ta[f.name][0])
                                eops = [op for op in A.ops_for(model, f.type, est)
                                        if model.apply(f.type, est, op)[0] == A.OK and model.apply(f.type, est, op)[1] != est]
                                for op in eops[:12]:
                                    a, b = make(ta, 'sparse'), make(tb, 'sparse')
                                    src = getattr(a, f.name)
                                    arg = src if how == 'array' else (src[:] if how == 'slice' else list(src))
                                    getattr(b, f.name).extend(arg)
                                    if side == 'src':
                                        elem, other, want = getattr(a, f.name)[0], b, want_b
                                    else:
                                        elem, other, want = getattr(b, f.name)[len(tb[f.name])], a, ta
                                    eimpl = ahe.Impl(ref, mod, f.type, model)
                                    if eimpl.execute(elem, op) != 'ok':
                                        continue
                                    out['mutations'] += 1
                                    if not same(other, want):
                                        viol('extend-aliases|%s|mutated=%s' % (how, side),
                                             'after %s on the %s element the other message reads %r' % (
                                                 A.op_text(op), side, safe_obs(ref, top, other)), ta, tb, op)
    except Exception:       # noqa
        out['harness_error'] = traceback.format_exc()
    return out


def safe_obs(ref, top, msg):
    try:
        return T.observe(ref, top, msg)
    except Exception as e:      # noqa
        return 'observe raises %r' % e


def shape_key(ref, top, ta, tb):
    """Which parts of a / b are populated (class key material)."""
    def sh(t):
        if isinstance(t, dict):
            return '{' + ','.join('%s:%s' % (k, sh(v)) for k, v in sorted(t.items()) if not isinstance(v, (int, float, str, bytes))) + '}'
        if isinstance(t, tuple):
            return 'arm.' + t[0]
        if isinstance(t, list):
            return 'n%d' % min(len(t), 2)
        if t is None:
            return 'absent'
        return ''
    return 'a=%s|b=%s' % (sh(ta), sh(tb))


def run(ctx):
    names = sorted(zoo())
    for res in ctx.pmap(explore, [(n, ctx.tier) for n in names]):
        if 'harness_error' in res:
            raise HarnessError(res['harness_error'])
        ctx.cov['states'] += res['pairs']
        ctx.cov['transitions'] += res['mutations'] + res['extends'] + res['pairs'] * 2
        ctx.cov['traces_validated_against_impl'] += res['executions']
        ctx.cov['evaluations'] += res['executions']
        ctx.cov.setdefault('per_message', {})[res['name']] = {'pairs': res['pairs'], 'mutations': res['mutations'],
                                                              'extends': res['extends']}
        for s in res['samples']:
            ctx.sample(s)
        for key, art in res['viol']:
            ctx.violation_counts[key] = ctx.violation_counts.get(key, 0) + 1
            if art is not None and len(ctx.violations.setdefault(key, [])) < 3:
                ctx.violations[key].append(art)
    for key in [k for k, v in ctx.violations.items() if not v]:
        del ctx.violations[key]
    ctx.cov['distinct_nontrivial'] = ctx.cov['states']
    ctx.cov['rule'] = ('states = ordered pairs (a, b) of values of each composite-kind message, each in sparse (only non-default '
                       'fields assigned) and dense (fully read) mode; transitions = copy_from + every single accepted '
                       'mutation of the API alphabet applied to a or to b after the copy, plus extend() of composite arrays '
                       'followed by mutation of the source or stored element; expected values come from the value trees.')


def replay(art):
    defs, top = zoo()[art['zoo']]
    res = T.compile_text(S.render_prophy(defs), outs=('python',))
    mod = T.import_generated(res.files['m.py'])
    ref = R.Ref(defs)
    model = A.ApiModel(ref)
    # simplest faithful replay: re-run the exploration of this message and look for the same key class
    out = explore((art['zoo'], 'quick'))
    keys = sorted(set(k for k, a in out['viol']))
    if keys:
        return 'schema:\n%s\nviolations on this message: %s\nfirst: %s' % (
            art['schema'], keys[:6], [a for k, a in out['viol'] if a][0])
    return None
