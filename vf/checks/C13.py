"""C13 prophyc always terminates with outputs or a designed diagnostic."""
import io
import itertools
import os
import re
import shutil
import sys
import traceback

from .. import toolchain as T
from ..run import HarnessError

FORBIDDEN = (ValueError, KeyError, AttributeError, TypeError, IndexError, AssertionError, RecursionError)

BASES = {
    'consts': '''const A = 4;
const B = (A + 2) * 3 - 0x10 / 2;
const C = A << 2;
enum E { E_A = 1, E_B = A, E_C = 0xFFFFFFFF };
typedef u16 T;
struct S { T a; E e; u8 b[A]; };
''',
    'arrays': '''struct F { u8 p; u16 q; };
struct X { u32 n; u8 a<>; u16 b<3>; F c[2]; F d<>; u8 e<@n>; bytes f<4>; u64 g<...>; };
''',
    'optional_union': '''struct F { u8 p; };
union U { 1: u8 a; 2: F b; 3: u64 c; };
struct X { u8* o; F* of; U u; U* ou; };
''',
    'nested': '''struct D { u8 v<>; };
struct G { u16 h; u8 r<...>; };
typedef D TD;
struct X { TD d; u8 t; D dd<>; G g; };
''',
    'include': '''#include "inc.prophy"
struct X { I i; u8 a[IC]; };
''',
    'bytes': '''struct X { bytes a[3]; bytes b<>; u8 n; bytes c<@n>; bytes d<...>; };
''',
    'floats': '''enum E { E_A = 0x7fffffff };
struct X { float f; double d; i8 a; i16 b; i32 c; i64 e; E x<2>; };
''',
    'typedef_union': '''struct F { u8 p; };
union U { 1: u8 a; 2: F b; };
typedef U TU;
typedef TU TTU;
typedef F TF;
struct X { TTU u; TU v[2]; TF f; TU* o; TTU w<>; };
union W { 1: TTU x; 2: TF y; };
''',
    'comments': '''// line comment
/* block
   comment */
const K = 010;
struct X { u8 a; /* inline */ u16 b; };
''',
}
INC = 'const IC = 2;\nstruct I { u8 x; };\n'

TOKEN_RE = re.compile(r'//[^\n]*\n|/\*.*?\*/|[A-Za-z_][A-Za-z0-9_]*|0x[0-9a-fA-F]+|\d+|<<|>>|\.\.\.|"[^"]*"|\S', re.S)
ALPHABET = ['struct', 'union', 'enum', 'typedef', 'const', 'u8', 'u64', 'bytes', 'float', 'X', 'F', 'A', 'undefined_name',
            '{', '}', '[', ']', '<', '>', ';', ':', '=', ',', '*', '...', '@', '1', '0', '-', '(', ')', '#', '"x"', '<<',
            '0x', '65536', '$']
ALPHABET_QUICK = ['struct', 'u8', 'bytes', 'X', 'undefined_name', '{', '}', '[', '<', '>', ';', ':', '=', '*', '...', '@',
                  '1', '0', '-', '(', '#', '65536', '$']
SHORT_ALPHABET = ['struct', 'union', 'X', 'u8', 'a', '{', '}', ';', '<', '>', '1', ':']


class Budget(Exception):
    pass


TOOL = 4


WALL_LIMIT = 60


class Counter(object):
    """Deterministic work counter on sys.monitoring: Python function starts and backward jumps (loop
    iterations), so that a loop making no call at all still runs into the budget."""

    def __init__(self, budget):
        self.n, self.budget, self.fired = 0, budget, False

    def _blow(self):
        # raise exactly once and stop monitoring: the handlers that deal with the exception are Python code too
        if not self.fired:
            self.fired = True
            sys.monitoring.set_events(TOOL, 0)
            raise Budget()

    def jump(self, code, off, dest):
        if dest < off:
            self.n += 1
            if self.n > self.budget:
                self._blow()

    def start(self, code, off):
        self.n += 1
        if self.n > self.budget:
            self._blow()


def _alarm(signum, frame):
    raise Budget('wall')


def run_main(argv, budget, wall=None):
    """Calls the real prophyc.main under a work budget.  Returns (outcome, detail, events)."""
    wall = wall or WALL_LIMIT
    import prophyc
    import contextlib
    import signal
    mon = sys.monitoring
    cnt = Counter(budget)
    err, out = io.StringIO(), io.StringIO()
    outcome, detail = 'return', ''
    # last-resort kill (harness safety net); the deterministic counter is the oracle
    old_handler = signal.signal(signal.SIGALRM, _alarm)
    signal.alarm(wall)
    mon.use_tool_id(TOOL, 'vf-budget')
    mon.register_callback(TOOL, mon.events.JUMP, cnt.jump)
    mon.register_callback(TOOL, mon.events.PY_START, cnt.start)
    mon.set_events(TOOL, mon.events.JUMP | mon.events.PY_START)
    try:
        try:
            with contextlib.redirect_stderr(err), contextlib.redirect_stdout(out):
                prophyc.main(list(argv))
        except Budget as b:
            outcome, detail = ('WALL' if b.args else 'BUDGET'), ('no answer within %d s' % wall) if b.args else \
                'more than %d function starts + loop iterations' % budget
        except prophyc.ProphycError as e:
            outcome, detail = 'ProphycError', str(e)[:300]
        except SystemExit as e:
            outcome, detail = 'SystemExit', str(e)[:100]
        except FORBIDDEN as e:
            tb = traceback.extract_tb(sys.exc_info()[2])
            where = '%s:%s' % (os.path.basename(tb[-1].filename), tb[-1].name) if tb else '?'
            outcome, detail = 'INTERNAL:' + type(e).__name__, '%s at %s: %s' % (type(e).__name__, where, str(e)[:200])
        except Exception as e:      # noqa
            outcome, detail = 'other:' + type(e).__name__, str(e)[:200]
    finally:
        mon.set_events(TOOL, 0)
        mon.register_callback(TOOL, mon.events.JUMP, None)
        mon.register_callback(TOOL, mon.events.PY_START, None)
        mon.free_tool_id(TOOL)
        signal.alarm(0)
        signal.signal(signal.SIGALRM, old_handler)
    return outcome, detail, cnt.n


OUT_FILES = {'--python_out': ['%s.py'], '--cpp_out': ['%s.pp.hpp', '%s.pp.cpp'], '--cpp_full_out': ['%s.ppf.hpp', '%s.ppf.cpp'],
             '--prophy_out': ['%s.prophy']}
VALUE_OPTS = set(OUT_FILES) | {'-I', '--include_dir', '-S', '--include_isar', '-p', '--patch'}


def requested_outputs(argv):
    """The files a successful run has to leave behind: one set per input file and output option."""
    outs, inputs, i = {}, [], 0
    while i < len(argv):
        a = argv[i]
        if a in VALUE_OPTS:
            if a in OUT_FILES and i + 1 < len(argv):
                outs[a] = argv[i + 1]
            i += 2
            continue
        if not a.startswith('-'):
            inputs.append(a)
        i += 1
    want = []
    for opt, d in sorted(outs.items()):
        for inp in inputs:
            stem = os.path.splitext(os.path.basename(inp))[0]
            want += [os.path.join(d, f % stem) for f in OUT_FILES[opt]]
    return want


def all_outs(d):
    return ['--python_out', d, '--cpp_out', d, '--cpp_full_out', d, '--prophy_out', d]


def tokens(text):
    return [t for t in TOKEN_RE.findall(text)]


def text_mutations(base, tier):
    """(label, text) for every single-token edit and every prefix of a base text."""
    toks = tokens(base)
    n = len(toks)
    for i in range(n):
        yield 'del@%d' % i, ' '.join(toks[:i] + toks[i + 1:])
        yield 'dup@%d' % i, ' '.join(toks[:i + 1] + toks[i:])
        if i + 1 < n:
            yield 'swap@%d' % i, ' '.join(toks[:i] + [toks[i + 1], toks[i]] + toks[i + 2:])
        for a in (ALPHABET if tier == 'thorough' else ALPHABET_QUICK):
            if a != toks[i]:
                yield 'repl@%d=%s' % (i, a), ' '.join(toks[:i] + [a] + toks[i + 1:])
        yield 'prefix-tok@%d' % i, ' '.join(toks[:i])
    step = 1 if tier == 'thorough' else 3
    for k in range(0, len(base), step):
        yield 'prefix-chr@%d' % k, base[:k]


def double_mutations(base):
    toks = tokens(base)
    small = ['struct', '{', '}', ';', '<', 'X', '1', '*', ':', '...']
    for i, j in itertools.combinations(range(len(toks)), 2):
        for a in small[:4]:
            for b in small[4:8]:
                t = list(toks)
                t[i], t[j] = a, b
                yield '2repl@%d,%d' % (i, j), ' '.join(t)


ISAR_BASES = {
    'isar_all': '''<xml>
<constant name="K" value="3"/>
<constant name="L" value="shiftLeft(K, 1)"/>
<typedef name="T" primitiveType="16 bit integer unsigned"/>
<typedef name="TT" type="T"/>
<enum name="E"><enum-member name="E_A" value="1"/><enum-member name="E_N" value="-1"/></enum>
<struct name="F"><member name="p" type="u8"/><member name="q" type="TT"/></struct>
<struct name="S"><member name="a" type="u8"><dimension size="K"/></member>
<member name="o" type="F" optional="true"/>
<member name="v" type="u16"><dimension isVariableSize="true" size="4"/></member>
<member name="numOfW" type="u32"/><member name="w" type="u8"><dimension size="THIS_IS_VARIABLE_SIZE_ARRAY"/></member></struct>
<union name="U"><member name="a" type="u8" discriminatorValue="1"/><member name="f" type="F" discriminatorValue="E_A"/></union>
<message name="M"><member name="n" type="u32"/><member name="x" type="F"><dimension isVariableSize="true" variableSizeFieldName="cnt" variableSizeFieldType="u8"/></member></message>
</xml>
''',
    'isar_include': '''<xml><xi:include xmlns:xi="http://www.w3.org/2001/XInclude" href="inc.xml"/>
<struct name="S"><member name="i" type="I"/></struct></xml>
''',
}
ISAR_INC = '<xml><struct name="I"><member name="x" type="u8"/></struct></xml>\n'


ISAR_BASES['isar_typedef_union'] = '''<xml>
<struct name="F"><member name="p" type="u8"/></struct>
<union name="U"><member name="a" type="u8" discriminatorValue="1"/><member name="f" type="F" discriminatorValue="2"/></union>
<typedef name="TU" type="U"/>
<typedef name="TTU" type="TU"/>
<typedef name="TF" type="F"/>
<struct name="X"><member name="u" type="TTU"/><member name="v" type="TU"><dimension size="2"/></member><member name="f" type="TF"/>
<member name="o" type="TU" optional="true"/></struct>
<union name="W"><member name="x" type="TTU" discriminatorValue="1"/><member name="y" type="TF" discriminatorValue="2"/></union>
</xml>
'''


def xml_mutations(base, tier):
    import xml.etree.ElementTree as ET
    root = ET.fromstring(base)

    def walk(e, path=()):
        yield e, path
        for i, c in enumerate(list(e)):
            for x in walk(c, path + (i,)):
                yield x
    items = list(walk(root))
    for e, path in items:
        if path:
            r2 = ET.fromstring(base)
            parent = r2
            for i in path[:-1]:
                parent = list(parent)[i]
            parent.remove(list(parent)[path[-1]])
            yield 'rm-elem@%s' % '.'.join(map(str, path)), ET.tostring(r2, encoding='unicode')
        for attr in list(e.attrib):
            for how in ('rm', 'empty', 'junk'):
                r2 = ET.fromstring(base)
                tgt = r2
                for i in path:
                    tgt = list(tgt)[i]
                if how == 'rm':
                    del tgt.attrib[attr]
                elif how == 'empty':
                    tgt.attrib[attr] = ''
                else:
                    tgt.attrib[attr] = 'no such thing ((('
                yield '%s-attr@%s.%s' % (how, '.'.join(map(str, path)), attr), ET.tostring(r2, encoding='unicode')
    step = 1 if tier == 'thorough' else 4
    for k in range(0, len(base), step):
        yield 'trunc@%d' % k, base[:k]


def digraph_xml(kinds, edges):
    """Definitions N0..Nk referring to each other as typedef target / struct member / union arm, cycles included."""
    out = ['<xml>']
    for i, k in enumerate(kinds):
        targets = [j for (a, j) in edges if a == i]
        name = 'N%d' % i
        if k == 'typedef':
            t = targets[0] if targets else None
            out.append('<typedef name="%s" %s/>' % (name, ('type="N%d"' % t) if t is not None
                                                    else 'primitiveType="8 bit integer unsigned"'))
        elif k == 'struct':
            ms = ''.join('<member name="m%d" type="N%d"/>' % (j, j) for j in targets) or '<member name="x" type="u8"/>'
            out.append('<struct name="%s">%s</struct>' % (name, ms))
        else:
            ms = ''.join('<member name="m%d" type="N%d" discriminatorValue="%d"/>' % (j, j, j + 1) for j in targets) or \
                '<member name="x" type="u8" discriminatorValue="1"/>'
            out.append('<union name="%s">%s</union>' % (name, ms))
    out.append('</xml>')
    return '\n'.join(out)


def digraphs(tier, seed):
    for n in (1, 2, 3):
        pairs = [(i, j) for i in range(n) for j in range(n)]
        idx = 0
        for kinds in itertools.product(('typedef', 'struct', 'union'), repeat=n):
            for r in range(len(pairs) + 1):
                for edges in itertools.combinations(pairs, r):
                    if any(kinds[i] == 'typedef' and sum(1 for (a, b) in edges if a == i) > 1 for i in range(n)):
                        continue
                    idx += 1
                    if n == 3 and tier == 'quick' and (idx + seed) % 16:
                        continue
                    yield kinds, edges


PATCH_RULES = ['type', 'insert', 'remove', 'dynamic', 'greedy', 'static', 'limited', 'struct', 'rename', 'bogus']


def patch_scripts():
    args = ['a', 'o', 'nosuch', 'K', '0', '999', 'x1', 'u8', 'F', 'K*2', 'T*2', 'TT+K']
    for node in ('S', 'U', 'Absent', 'E', 'K'):
        yield node
        for rule in PATCH_RULES:
            yield '%s %s' % (node, rule)
            for a1 in args:
                yield '%s %s %s' % (node, rule, a1)
                for a2 in args[:6]:
                    yield '%s %s %s %s' % (node, rule, a1, a2)
                    for a3 in ('u8', 'nosuch'):
                        yield '%s %s %s %s %s' % (node, rule, a1, a2, a3)
                        yield '%s %s %s %s %s extra' % (node, rule, a1, a2, a3)


def judge(job):
    kind, items, tier = job
    T.setup_repo()
    out = {'viol': [], 'runs': 0, 'outcomes': {}, 'samples': [], 'distinct': 0, 'max_ratio': 0.0}
    seen = {}

    def viol(key, label, inputs, argv, detail):
        seen[key] = seen.get(key, 0) + 1
        out['viol'].append((key, {'kind': kind, 'label': label, 'inputs': inputs, 'argv': argv, 'detail': detail}
                            if seen[key] <= 2 else None))

    def record(label, files, argv_fn, base_calls, construct):
        d = T.fresh_dir('c13')
        try:
            for fn, content in files.items():
                mode = 'wb' if isinstance(content, bytes) else 'w'
                os.makedirs(os.path.dirname(os.path.join(d, fn)), exist_ok=True)
                with open(os.path.join(d, fn), mode) as f:
                    f.write(content)
            argv = argv_fn(d)
            budget = 5 * base_calls + 100000
            before = {f: os.stat(f).st_mtime_ns for f in requested_outputs(argv) if os.path.exists(f)}
            o, detail, calls = run_main(argv, budget)
            if o == 'WALL':
                # the deterministic counter did not trip but the clock did: a loaded machine, or a loop outside Python
                # code.  Only an input that stays silent for ten times as long is reported.
                for fn, content in files.items():
                    with open(os.path.join(d, fn), 'wb' if isinstance(content, bytes) else 'w') as f:
                        f.write(content)
                o, detail, calls = run_main(argv, budget, wall=10 * WALL_LIMIT)
                if o == 'WALL':
                    o = 'BUDGET'
            if o == 'return' and '--version' not in argv and '-h' not in argv:
                # "writes all requested outputs and succeeds": every requested file is there, non-empty and written by this run
                missing = [f for f in requested_outputs(argv)
                           if not (os.path.isfile(f) and (os.path.getsize(f) > 0 or f.endswith('.prophy'))
                                   and os.stat(f).st_mtime_ns != before.get(f))]
                out['outputs_checked'] = out.get('outputs_checked', 0) + len(requested_outputs(argv))
                if missing:
                    opts = sorted(set(a for a in argv if a in OUT_FILES))
                    viol('success-without-output|%s|missing=%s' % ('+'.join(opts), '+'.join(sorted(set(
                        '.'.join(os.path.basename(m).split('.')[1:]) for m in missing)))), label, files_json(files),
                        [a.replace(d, '<dir>') for a in argv], 'exit ok, no diagnostic, but not written: %s' % ', '.join(
                            m.replace(d, '<dir>') for m in missing))
            out['runs'] += 1
            out['outcomes'][o] = out['outcomes'].get(o, 0) + 1
            out['max_ratio'] = max(out['max_ratio'], calls / float(base_calls))
            if o != 'return':
                out['distinct'] += 1
            shown = [a.replace(d, '<dir>') for a in argv]
            if o == 'BUDGET':
                viol('hang|%s|%s' % (kind, construct), label, files_json(files), shown, detail)
            elif o.startswith('INTERNAL:'):
                where = detail.split(' at ')[1].split(':')[0:2] if ' at ' in detail else ['?']
                viol('internal|%s|%s|%s' % (o.split(':')[1], ':'.join(where), kind), label, files_json(files), shown, detail)
            if len(out['samples']) < 2 and o == 'ProphycError':
                out['samples'].append({'kind': kind, 'edit': label, 'outcome': o, 'message': detail[:160]})
        finally:
            shutil.rmtree(d, ignore_errors=True)

    def files_json(files):
        return {k: (v.decode('latin-1') if isinstance(v, bytes) else v)[:4000] for k, v in files.items()}

    try:
        if kind == 'prophy':
            name, label_texts, base_calls = items
            for label, text in label_texts:
                record('%s:%s' % (name, label), {'m.prophy': text, 'inc.prophy': INC},
                       lambda d: all_outs(d) + [os.path.join(d, 'm.prophy')], base_calls, label.split('@')[0])
        elif kind == 'isar':
            name, label_texts, base_calls = items
            for label, text in label_texts:
                record('%s:%s' % (name, label), {'m.xml': text, 'inc.xml': ISAR_INC},
                       lambda d: ['--isar'] + all_outs(d) + [os.path.join(d, 'm.xml')], base_calls, label.split('@')[0])
        elif kind == 'digraph':
            graphs, base_calls = items
            for kinds, edges in graphs:
                cyc = 'cyclic' if has_cycle(len(kinds), edges) else 'acyclic'
                record('digraph %s %s' % ('-'.join(kinds), edges), {'m.xml': digraph_xml(kinds, edges)},
                       lambda d: ['--isar'] + all_outs(d) + [os.path.join(d, 'm.xml')], base_calls, cyc)
        elif kind == 'patch':
            scripts, base_calls = items
            for script in scripts:
                record('patch %r' % script, {'m.xml': ISAR_BASES['isar_all'], 'p.txt': script + '\n'},
                       lambda d: ['--isar', '-p', os.path.join(d, 'p.txt')] + all_outs(d) + [os.path.join(d, 'm.xml')],
                       base_calls, 'arity%d' % len(script.split()))
        elif kind == 'include':
            cases, base_calls = items
            for label, files, main in cases:
                mode = ['--isar'] if main.endswith('.xml') else []
                record(label, files, lambda d, main=main, mode=mode: mode + all_outs(d) + [os.path.join(d, main)],
                       base_calls, ' '.join(label.split()[:3]))
        elif kind == 'outputs':
            # every non-empty subset of the four output options, in every order of two, x front-end x one or two inputs
            combos, base_calls = items
            for mode, inputs, opts in combos:
                files = {'m.prophy': BASES['arrays'], 'n.prophy': BASES['consts'], 'm.xml': ISAR_BASES['isar_all'],
                         'n.xml': ISAR_INC}

                def argv_fn(d, mode=mode, inputs=inputs, opts=opts):
                    argv = list(mode)
                    for o_ in opts:
                        sub = os.path.join(d, o_.strip('-'))
                        os.mkdir(sub)
                        argv += [o_, sub]
                    return argv + [os.path.join(d, i_) for i_ in inputs]
                record('outputs %s %s %s' % (' '.join(mode), ' '.join(opts), ' '.join(inputs)), files, argv_fn, base_calls, 'outputs')
        elif kind == 'options':
            combos, base_calls = items
            for combo in combos:
                files = {'m.prophy': BASES['arrays'], 'n.prophy': BASES['consts'], 'm.xml': ISAR_BASES['isar_all'],
                         'p.txt': 'S remove a\n', 'bin.prophy': b'\xff\xfe\x00struct'}

                def argv_fn(d, combo=combo):
                    argv = []
                    for c in combo:
                        argv += [x.replace('@D', d) for x in c.split()]
                    return argv
                record('options %s' % ' '.join(combo), files, argv_fn, base_calls, 'options')
    except Exception:       # noqa
        out['harness_error'] = traceback.format_exc()
    return out


def has_cycle(n, edges):
    adj = dict((i, [b for (a, b) in edges if a == i]) for i in range(n))
    state = {}

    def dfs(u):
        state[u] = 1
        for v in adj[u]:
            if state.get(v) == 1 or (v not in state and dfs(v)):
                return True
        state[u] = 2
        return False
    return any(u not in state and dfs(u) for u in range(n))


OPTION_POOL = ['--isar', '--sack', '--python_out @D', '--python_out @D/nodir', '--cpp_out @D', '--cpp_full_out @D',
               '--prophy_out @D', '-I @D', '-I @D/nodir', '-p @D/p.txt', '-p @D/nofile', '--void_out', '--version', '--quiet',
               '-S @D/m.xml', '@D/m.prophy', '@D/nofile.prophy', '@D/n.prophy', '@D/m.xml', '@D/bin.prophy', '--bogus', '-h']


def include_cases():
    cases = []
    cases.append(('missing include', {'m.prophy': '#include "nosuch.prophy"\nstruct X { u8 a; };\n'}, 'm.prophy'))
    cases.append(('self include', {'m.prophy': '#include "m.prophy"\nstruct X { u8 a; };\n'}, 'm.prophy'))
    cases.append(('cyclic include', {'m.prophy': '#include "b.prophy"\nstruct X { u8 a; };\n',
                                     'b.prophy': '#include "m.prophy"\nstruct Y { u8 a; };\n'}, 'm.prophy'))
    cases.append(('cyclic3 include', {'m.prophy': '#include "b.prophy"\n', 'b.prophy': '#include "c.prophy"\n',
                                      'c.prophy': '#include "m.prophy"\nstruct Z { u8 a; };\n'}, 'm.prophy'))
    cases.append(('diamond include', {'m.prophy': '#include "b.prophy"\n#include "c.prophy"\nstruct X { B b; C c; };\n',
                                      'b.prophy': '#include "d.prophy"\nstruct B { D d; };\n',
                                      'c.prophy': '#include "d.prophy"\nstruct C { D d; };\n',
                                      'd.prophy': 'struct D { u8 x; };\n'}, 'm.prophy'))
    # cycles that close through another spelling of a file already being parsed
    cases.append(('cyclic include through a subdirectory', {'m.prophy': '#include "sub/b.prophy"\nstruct X { u8 a; };\n',
                                                            'sub/b.prophy': '#include "../m.prophy"\nstruct Y { u8 a; };\n'}, 'm.prophy'))
    cases.append(('self include with a dot', {'m.prophy': '#include "./m.prophy"\nstruct X { u8 a; };\n'}, 'm.prophy'))
    cases.append(('cyclic include with dots', {'m.prophy': '#include "b.prophy"\nstruct X { u8 a; };\n',
                                               'b.prophy': '#include "./sub/../m.prophy"\nstruct Y { u8 a; };\n',
                                               'sub/keep.prophy': ''}, 'm.prophy'))
    cases.append(('repeated include under two spellings', {'m.prophy': '#include "b.prophy"\n#include "./b.prophy"\nstruct X { B b; };\n',
                                                           'b.prophy': 'struct B { u8 a; };\n'}, 'm.prophy'))
    cases.append(('bad directive', {'m.prophy': '#import "b.prophy"\nstruct X { u8 a; };\n', 'b.prophy': ''}, 'm.prophy'))
    cases.append(('include of broken file', {'m.prophy': '#include "b.prophy"\nstruct X { u8 a; };\n',
                                            'b.prophy': 'struct {'}, 'm.prophy'))
    cases.append(('include directory', {'m.prophy': '#include "."\nstruct X { u8 a; };\n'}, 'm.prophy'))
    inc = '<xi:include xmlns:xi="http://www.w3.org/2001/XInclude" href="%s"/>'
    cases.append(('isar missing include', {'m.xml': '<xml>%s</xml>' % (inc % 'nosuch.xml')}, 'm.xml'))
    cases.append(('isar self include', {'m.xml': '<xml>%s<struct name="S"><member name="a" type="u8"/></struct></xml>' % (
        inc % 'm.xml')}, 'm.xml'))
    cases.append(('isar cyclic include', {'m.xml': '<xml>%s</xml>' % (inc % 'b.xml'), 'b.xml': '<xml>%s</xml>' % (inc % 'm.xml')},
                  'm.xml'))
    cases.append(('isar include of broken file', {'m.xml': '<xml>%s</xml>' % (inc % 'b.xml'), 'b.xml': '<xml><struct'}, 'm.xml'))
    cases.append(('empty file', {'m.prophy': ''}, 'm.prophy'))
    cases.append(('binary file', {'m.prophy': b'\xff\xfe\x00\x01struct X'}, 'm.prophy'))
    cases.append(('isar empty file', {'m.xml': ''}, 'm.xml'))
    cases.append(('isar not xml', {'m.xml': 'struct X { u8 a; };'}, 'm.xml'))
    return cases


def extra_texts():
    """Hand-picked idioms that a single token edit of the bases does not reach."""
    out = [
        ('negative shift', 'const A = 1 << -1;\n'),
        ('negative right shift', 'const A = 8 >> -2;\n'),
        ('division by zero', 'const A = 1 / 0;\n'),
        ('division by zero in size', 'struct X { u8 a[4 / (2 - 2)]; };\n'),
        ('typedef of itself', 'typedef u8 A; typedef A A; struct S { A n; u8 x<@n>; };\n'),
        ('typedef cycle', 'typedef B A; typedef A B;\n'),
        ('struct of itself', 'struct S { S s; };\n'),
        ('struct array of itself', 'struct S { S s<>; };\n'),
        ('union of itself', 'union U { 1: U u; };\n'),
        ('huge literal', 'const A = 99999999999999999999999999999999999999999999999999;\nstruct X { u8 a[A]; };\n'),
        ('huge array', 'struct X { u8 a[4294967295]; };\n'),
        ('deep parentheses', 'const A = ' + '(' * 200 + '1' + ')' * 200 + ';\n'),
        ('very deep parentheses', 'const A = ' + '(' * 5000 + '1' + ')' * 5000 + ';\n'),
        ('long sum', 'const A = ' + ' + '.join(['1'] * 3000) + ';\n'),
        ('many members', 'struct X { ' + ' '.join('u8 f%d;' % i for i in range(1500)) + ' };\n'),
        ('unterminated comment', 'struct X { u8 a; }; /* no end\n'),
        ('unterminated string', '#include "abc\n'),
        ('nul byte', 'struct X { u8 a; };\x00\n'),
        ('non-ascii identifier', 'struct \u017b { u8 a; };\n'),
        ('keyword as name', 'struct struct { u8 a; };\n'),
        ('enum referencing itself', 'enum E { E_A = E_A };\n'),
        ('const referencing itself', 'const A = A + 1;\n'),
        ('sizer typedef float', 'typedef float F; struct X { F n; u8 x<@n>; };\n'),
        ('discriminator expression', 'union U { 1 + 1: u8 a; 2: u8 b; };\n'),
    ]
    return out


def extra_isar():
    return [
        ('isar division by zero', '<xml><constant name="K" value="1/0"/></xml>'),
        ('isar negative shift', '<xml><constant name="K" value="1 &lt;&lt; -1"/></xml>'),
        ('isar shiftLeft unbalanced', '<xml><constant name="K" value="shiftLeft(1, 2"/></xml>'),
        ('isar shiftLeft nested', '<xml><constant name="K" value="shiftLeft(shiftLeft(1, 2), bitMaskOr(1, 2))"/></xml>'),
        ('isar duplicate typedef cycle', '<xml><typedef name="A" type="B"/><typedef name="B" primitiveType="8 bit integer unsigned"/>'
                                         '<typedef name="B" type="A"/><struct name="S"><member name="m" type="A"/></struct></xml>'),
        ('isar duplicate typedef cycle in a union arm', '<xml><typedef name="B" primitiveType="8 bit integer unsigned"/>'
                                                        '<typedef name="A" type="B"/><typedef name="B" type="A"/><union name="U">'
                                                        '<member name="m" type="A" discriminatorValue="1"/></union></xml>'),
        ('isar duplicate typedef cycle as element type', '<xml><typedef name="B" primitiveType="8 bit integer unsigned"/>'
                                                         '<typedef name="A" type="B"/><typedef name="B" type="A"/><struct name="S">'
                                                         '<member name="m" type="A"><dimension size="2"/></member>'
                                                         '<member name="o" type="B" optional="true"/></struct></xml>'),
        ('isar duplicate struct', '<xml><struct name="S"><member name="a" type="u8"/></struct>'
                                  '<struct name="S"><member name="b" type="u16"/></struct></xml>'),
        ('isar duplicate member', '<xml><struct name="S"><member name="a" type="u8"/><member name="a" type="u16"/></struct></xml>'),
        ('isar duplicate enum value', '<xml><enum name="E"><enum-member name="A" value="1"/><enum-member name="B" value="1"/></enum></xml>'),
        ('isar unknown type', '<xml><struct name="S"><member name="a" type="Nope"/></struct></xml>'),
        ('isar unknown size', '<xml><struct name="S"><member name="a" type="u8"><dimension size="NOPE"/></member></struct></xml>'),
        ('isar size expression', '<xml><constant name="K" value="2"/><struct name="S"><member name="a" type="u8">'
                                 '<dimension size="K" size2="3"/></member></struct></xml>'),
        ('isar negative size', '<xml><struct name="S"><member name="a" type="u8"><dimension size="-1"/></member></struct></xml>'),
        ('isar empty struct', '<xml><struct name="S"></struct><struct name="T"><member name="s" type="S"/></struct></xml>'),
        ('isar empty union', '<xml><union name="U"></union></xml>'),
        ('isar empty enum', '<xml><enum name="E"></enum><struct name="T"><member name="e" type="E"/></struct></xml>'),
        ('isar optional array', '<xml><struct name="S"><member name="a" type="u8" optional="true"><dimension size="3"/></member></struct></xml>'),
        ('isar size names a typedef', '<xml><typedef name="TC" primitiveType="32 bit integer unsigned"/><struct name="S">'
                                      '<member name="a" type="u8"><dimension size="TC*2"/></member></struct></xml>'),
        ('isar size names a typedef of a typedef', '<xml><typedef name="TC" primitiveType="32 bit integer unsigned"/>'
                                                   '<typedef name="TD" type="TC"/><struct name="S"><member name="a" type="u8">'
                                                   '<dimension size="TD + 1"/></member></struct></xml>'),
        ('isar size names a builtin type', '<xml><typedef name="TC" type="u32"/><struct name="S"><member name="a" type="u8">'
                                           '<dimension size="u32*2"/></member></struct></xml>'),
        ('isar size names a struct', '<xml><struct name="F"><member name="p" type="u8"/></struct><struct name="S">'
                                     '<member name="a" type="u8"><dimension size="F*2"/></member></struct></xml>'),
        ('isar size names an enum', '<xml><enum name="E"><enum-member name="E_A" value="1"/></enum><struct name="S">'
                                    '<member name="a" type="u8"><dimension size="E + E_A"/></member></struct></xml>'),
        ('isar constant names a typedef', '<xml><typedef name="TC" primitiveType="32 bit integer unsigned"/>'
                                          '<constant name="K" value="TC + 1"/><struct name="S"><member name="a" type="u8">'
                                          '<dimension size="K"/></member></struct></xml>'),
        ('isar enum value names a typedef', '<xml><typedef name="TC" type="u8"/><enum name="E"><enum-member name="E_A" value="TC"/>'
                                            '</enum></xml>'),
        ('isar constant names itself', '<xml><constant name="K" value="K + 1"/></xml>'),
        ('isar include cycle through typedef', '<xml><typedef name="Y" type="X"/><typedef name="X" type="Y"/>'
                                               '<struct name="S"><member name="a" type="u8"><dimension size="Y+1"/></member></struct></xml>'),
    ]


def baseline(files, argv_fn):
    d = T.fresh_dir('c13b')
    try:
        for fn, content in files.items():
            with open(os.path.join(d, fn), 'w') as f:
                f.write(content)
        o, detail, calls = run_main(argv_fn(d), 10 ** 8)
        if o != 'return':
            # the unchanged base is also judged as an input of its own (label 'identity'); its edits get a default budget
            return 200000
        return calls
    finally:
        shutil.rmtree(d, ignore_errors=True)


def run(ctx):
    T.setup_repo()
    jobs = []
    chunk = 150
    nbase = 0
    for name, base in sorted(BASES.items()):
        calls = baseline({'m.prophy': base, 'inc.prophy': INC}, lambda d: all_outs(d) + [os.path.join(d, 'm.prophy')])
        muts = [('identity', base)] + list(text_mutations(base, ctx.tier))
        if ctx.tier == 'thorough' and name in ('comments', 'optional_union'):
            muts += list(double_mutations(base))
        nbase += 1
        for k in range(0, len(muts), chunk):
            jobs.append(('prophy', (name, muts[k:k + chunk], calls), ctx.tier))
    # all short token strings
    maxlen = 3 if ctx.tier == 'quick' else 4
    short = []
    for n in range(0, maxlen + 1):
        for tup in itertools.product(SHORT_ALPHABET, repeat=n):
            short.append(('short', ' '.join(tup)))
    for k in range(0, len(short), 300):
        jobs.append(('prophy', ('short', short[k:k + 300], 60000), ctx.tier))
    for name, base in sorted(ISAR_BASES.items()):
        calls = baseline({'m.xml': base, 'inc.xml': ISAR_INC}, lambda d: ['--isar'] + all_outs(d) + [os.path.join(d, 'm.xml')])
        muts = [('identity', base)] + list(xml_mutations(base, ctx.tier))
        for k in range(0, len(muts), chunk):
            jobs.append(('isar', (name, muts[k:k + chunk], calls), ctx.tier))
        if name == 'isar_all':
            isar_calls = calls
    gs = list(digraphs(ctx.tier, ctx.seed))
    for k in range(0, len(gs), 60):
        jobs.append(('digraph', (gs[k:k + 60], 20000), ctx.tier))
    ps = list(patch_scripts())
    for k in range(0, len(ps), 200):
        jobs.append(('patch', (ps[k:k + 200], isar_calls), ctx.tier))
    jobs.append(('include', (include_cases(), 60000), ctx.tier))
    jobs.append(('include', ([('idiom: ' + n, {'m.prophy': t}, 'm.prophy') for n, t in extra_texts()], 60000), ctx.tier))
    jobs.append(('include', ([('idiom: ' + n, {'m.xml': t}, 'm.xml') for n, t in extra_isar()], 60000), ctx.tier))
    outs = []
    for mode, inputs in (((), ('m.prophy',)), ((), ('m.prophy', 'n.prophy')), (('--isar',), ('m.xml',)), (('--isar',), ('m.xml', 'n.xml'))):
        for r in (1, 2, 3, 4):
            for opts in itertools.permutations(sorted(OUT_FILES), r):
                outs.append((mode, inputs, opts))
    for k in range(0, len(outs), 64):
        jobs.append(('outputs', (outs[k:k + 64], 60000), ctx.tier))
    combos = []
    for r in (1, 2, 3):
        combos += list(itertools.combinations(OPTION_POOL, r))
    if ctx.tier == 'quick':
        combos = [c for i, c in enumerate(combos) if len(c) < 3 or (i + ctx.seed) % 3 == 0]
        ctx.cap('option subsets of size 3: every third explored in the quick tier (sizes 1 and 2 complete)')
    for k in range(0, len(combos), 120):
        jobs.append(('options', (combos[k:k + 120], 60000), ctx.tier))
    ratio = 0.0
    results = []
    retry = []
    for job, res in ctx.pmap_isolated(judge, jobs):
        if 'died' in res:
            retry.append(job)
        else:
            results.append(res)
    # a chunk whose process died: run its inputs one by one to find the input that kills the interpreter
    singles = []
    for kind, items, tier in retry:
        if kind in ('prophy', 'isar'):
            name, label_texts, base_calls = items
            singles += [(kind, (name, [lt], base_calls), tier) for lt in label_texts]
        elif kind in ('digraph', 'patch', 'options', 'include', 'outputs'):
            xs, base_calls = items
            singles += [(kind, ([x], base_calls), tier) for x in xs]
    for job, res in ctx.pmap_isolated(judge, singles, timeout=300):
        if 'died' in res:
            kind = job[0]
            what = job[1][1][0] if kind in ('prophy', 'isar') else job[1][0][0]
            key = 'interpreter-dies|%s|exit=%s' % (kind, res['died'])
            ctx.violation_counts[key] = ctx.violation_counts.get(key, 0) + 1
            if len(ctx.violations.setdefault(key, [])) < 3:
                ctx.violations[key].append({'kind': kind, 'label': repr(what)[:300], 'detail': 'the process running prophyc.main '
                                            'ended without an answer (exit %s)' % res['died'], 'isolated': True})
            ctx.outcome('interpreter-died')
        else:
            results.append(res)
    for res in results:
        if 'harness_error' in res:
            raise HarnessError(res['harness_error'])
        ctx.cov['evaluations'] += res['runs']
        ctx.cov['states'] += res['runs']
        ctx.cov['transitions'] += res['runs']
        ctx.cov['traces_validated_against_impl'] += res['runs']
        ctx.cov['distinct_nontrivial'] += res['distinct']
        ctx.cov['requested_output_files_checked'] = ctx.cov.get('requested_output_files_checked', 0) + res.get('outputs_checked', 0)
        ratio = max(ratio, res['max_ratio'])
        for k, n in res['outcomes'].items():
            ctx.outcome(k, n)
        for s in res['samples']:
            ctx.sample(s)
        for key, art in res['viol']:
            ctx.violation_counts[key] = ctx.violation_counts.get(key, 0) + 1
            if art is not None and len(ctx.violations.setdefault(key, [])) < 3:
                ctx.violations[key].append(art)
    for key in [k for k, v in ctx.violations.items() if not v]:
        del ctx.violations[key]
    ctx.cov['max_call_ratio_vs_base_input'] = round(ratio, 1)
    ctx.cov['rule'] = ('inputs = %d base .prophy texts x {every single-token deletion, duplication, adjacent swap, replacement by '
                       'each of %d alphabet tokens, every token prefix, character prefixes}; all token strings of length <= %d '
                       'over a %d-token alphabet; isar XML: every element removed, every attribute removed / emptied / '
                       'garbled, truncations; all digraphs of type references on <= 3 typedef/struct/union definitions '
                       '(self-loops and cycles included); patch scripts: every rule x arity 0..5 x present/absent node and '
                       'member x numeric/non-numeric index; missing / self / cyclic / diamond includes; option subsets of '
                       'size <= 3 incl. missing files and directories; every ordered non-empty selection of the four output options x '
                       '{prophy, isar} x {one, two} input files, each output to its own directory.  After every successful run '
                       'each requested output file must exist, have been written by that run and be non-empty (an empty schema may render to an empty .prophy). Each runs the real prophyc.main under a call budget '
                       '(5 x base + 100000 function starts and loop iterations, counted with sys.monitoring). distinct_nontrivial = inputs prophyc refused. A forbidden internal '
                       'exception class or a blown budget is a violation; other exception classes are tallied in outcomes.' % (
                           nbase, len(ALPHABET), maxlen, len(SHORT_ALPHABET)))
    if len(ctx.cov['outcomes']) < 2:
        raise HarnessError('vacuous: one outcome only')


def replay(art):
    T.setup_repo()
    if art.get('isolated'):
        return 'interpreter death is not replayed in-process: %s' % art.get('label')
    d = T.fresh_dir('c13r')
    try:
        for fn, content in art['inputs'].items():
            os.makedirs(os.path.dirname(os.path.join(d, fn)), exist_ok=True)
            with open(os.path.join(d, fn), 'wb') as f:
                f.write(content.encode('latin-1'))
        argv = [a.replace('<dir>', d) for a in art['argv']]
        for a in argv:
            if a.startswith(d + os.sep) and not os.path.splitext(a)[1] and not os.path.exists(a) and not a.endswith('nodir'):
                os.mkdir(a)
        before = {f: os.stat(f).st_mtime_ns for f in requested_outputs(argv) if os.path.exists(f)}
        o, detail, calls = run_main(argv, 2000000)
        if o == 'return' and '--version' not in argv and '-h' not in argv:
            missing = [f for f in requested_outputs(argv)
                       if not (os.path.isfile(f) and (os.path.getsize(f) > 0 or f.endswith('.prophy'))
                               and os.stat(f).st_mtime_ns != before.get(f))]
            if missing:
                return 'prophyc %s\n-> succeeds without a diagnostic but does not write %s' % (
                    ' '.join(art['argv']), ', '.join(m.replace(d, '<dir>') for m in missing))
        if o == 'BUDGET' or o.startswith('INTERNAL:'):
            return 'prophyc %s\ninputs: %s\n-> %s %s (%d calls)' % (' '.join(art['argv']), art['inputs'], o, detail, calls)
        return None
    finally:
        shutil.rmtree(d, ignore_errors=True)
