"""C14 Constant expressions denote one integer, the same in every back-end."""
import os
import shutil
import subprocess
import traceback

from .. import exprs as X, toolchain as T
from ..run import HarnessError

BATCH = 1200
HEADER = '''#include "inc.prophy"
const A = 6;
const B = 20;
enum EN
{
    E_X = 3,
    E_Y = 9
};
'''
ISAR_HEADER = '''<xml>
<constant name="A" value="6"/>
<constant name="B" value="20"/>
<enum name="EN"><enum-member name="E_X" value="3"/><enum-member name="E_Y" value="9"/></enum>
<constant name="INC" value="5"/>
'''


def sites_for(v):
    s = ['const']
    if 0 <= v < 2 ** 31:
        s += ['enum', 'disc']
    if 1 <= v <= 40:
        s += ['array']
    return s


def batch_text(items):
    """items: [(index, tree, value)] -> prophy text and the list of expectations (name, kind, value)."""
    out = [HEADER]
    expect = []
    for i, tree, v in items:
        mn, fl = X.render_min(tree), X.render_full(tree)
        out.append('const K%d = %s;' % (i, mn))
        expect.append(('K%d' % i, 'const', v, mn))
        if fl != mn:
            out.append('const F%d = %s;' % (i, fl))
            expect.append(('F%d' % i, 'const', v, fl))
        ss = sites_for(v)
        if 'enum' in ss:
            out.append('enum EE%d { EV%d = %s };' % (i, i, mn))
            expect.append(('EV%d' % i, 'enumerator', v, mn))
            out.append('union UD%d { %s: u8 a; };' % (i, mn))
            expect.append(('UD%d' % i, 'disc', v, mn))
        if 'array' in ss:
            out.append('struct SA%d { u8 a[%s]; u16 l<(%s)>; };' % (i, mn, fl))
            expect.append(('SA%d' % i, 'array', v, mn))
    return '\n'.join(out) + '\n', expect


def compile_with_inc(text, outs, d, name='m'):
    """prophyc on inc.prophy and <name>.prophy together (every input gets its own outputs)."""
    src = os.path.join(d, name + '.prophy')
    with open(src, 'w') as f:
        f.write(text)
    argv = []
    for o in outs:
        argv += ['--%s_out' % o, d]
    argv += [os.path.join(d, 'inc.prophy'), src]
    res = T.run_prophyc(argv)
    res.outdir = d
    if res.ok:
        for fn in os.listdir(d):
            if fn.startswith(name + '.') and fn != name + '.prophy':
                res.files[fn] = os.path.join(d, fn)
        res.nodes = {'m': res.nodes[name]}
    return res


OCTAL = None


def has_octal(text):
    import re
    return re.search(r'(?<![0-9A-Za-z_x])0[0-7]+(?![0-9A-Za-z_x])', text) is not None


def cpp_values(workdir, header, ns, expect):
    """Compile a table of the constants of one generated header; returns {name: value} or (None, text)."""
    inc = os.path.join(T.REPO, 'prophy_cpp', 'include')
    exprs_ = []
    for name, kind, v, text in expect:
        if kind in ('const', 'enumerator'):
            exprs_.append((name, '(long long)%s%s' % (ns, name)))
        elif kind == 'disc':
            exprs_.append((name, '(long long)%s%s::discriminator_a' % (ns, name)))
        elif kind == 'array':
            if ns:
                exprs_.append((name, '(long long)%s%s::encoded_byte_size' % (ns, name)))
            else:
                exprs_.append((name, '(long long)sizeof(%s%s)' % (ns, name)))
    src = os.path.join(workdir, 'tab_%s.cpp' % ('full' if ns else 'raw'))
    with open(src, 'w') as f:
        f.write('#include <stdio.h>\n#include "%s"\nstatic const long long vals[] = {\n' % header)
        f.write(',\n'.join(e for n, e in exprs_))
        f.write('\n};\nint main() { for (unsigned i = 0; i < sizeof(vals) / sizeof(vals[0]); ++i) printf("%lld\\n", vals[i]); return 0; }\n')
    exe = src[:-4]
    p = subprocess.run(['g++', '-std=gnu++14', '-O0', '-w', '-I', inc, '-I', workdir, src, '-o', exe],
                       stdout=subprocess.PIPE, stderr=subprocess.STDOUT)
    if p.returncode:
        return None, p.stdout.decode('utf-8', 'replace')[:1500]
    q = subprocess.run([exe], stdout=subprocess.PIPE)
    vals = [int(x) for x in q.stdout.decode().split()]
    return dict((n, val) for (n, e), val in zip(exprs_, vals)), ''


def array_expect(kind, v, full):
    # struct SA { u8 a[v]; u16 l<(v)>; }: a at 0..v, counter aligned 4, l region 2*v, total padded to 4
    off = (v + 3) // 4 * 4 + 4 + 2 * v
    return (off + 3) // 4 * 4


def judge_batch(job):
    items, tier, do_cpp = job
    T.setup_repo()
    out = {'viol': [], 'exprs': 0, 'checks': 0, 'sites': {}, 'samples': [], 'calc': 0}
    seen = {}

    def viol(key, text, v, detail):
        seen[key] = seen.get(key, 0) + 1
        out['viol'].append((key, {'expr': text, 'value': v, 'detail': detail} if seen[key] <= 2 else None))

    try:
        import prophyc.calc
        d = T.fresh_dir('c14')
        with open(os.path.join(d, 'inc.prophy'), 'w') as f:
            f.write('const INC = 5;\n')
        cur = list(items)
        text, expect = batch_text(cur)
        outs = ('python', 'cpp', 'cpp_full') if do_cpp else ('python',)
        res = compile_with_inc(text, outs, d)
        if not res.ok:
            # isolate the expressions prophyc rejects (each alone)
            for i, tree, v in cur:
                t1, e1 = batch_text([(i, tree, v)])
                r1 = compile_with_inc(t1, ('python',), d, name='one')
                if not r1.ok:
                    viol('prophyc-rejects|%s|%s' % (r1.exc_type, '+'.join(sorted(set(X.ops_used(tree))))),
                         X.render_min(tree), v, str(r1.exc)[:300])
            cur = []
            out['exprs'] += len(items)
            shutil.rmtree(d, ignore_errors=True)
            return out
        out['exprs'] += len(cur)
        # ---- model nodes
        nodes = dict((n.name, n) for n in res.nodes['m'])
        # ---- python
        try:
            mod = T.import_generated(res.files['m.py'])
        except Exception as e:      # noqa
            mod = None
            viol('python-import-fails|%s' % type(e).__name__, '(batch)', 0, str(e)[:300])
        for name, kind, v, etext in expect:
            out['sites'][kind] = out['sites'].get(kind, 0) + 1
            out['checks'] += 1
            opsk = '+'.join(sorted(set(t for t in ('/', '<<', '>>', '*', '-', '+') if t in etext)))
            if kind == 'const':
                node = nodes.get(name)
                if node is None or str(node.value) != str(v):
                    viol('model|const|%s' % opsk, etext, v, 'model constant %r, expected %d' % (getattr(node, 'value', None), v))
                if mod is not None:
                    got = getattr(mod, name, None)
                    if got != v or type(got) is not int:
                        viol('python|const|%s|%s' % (type(got).__name__, opsk), etext, v, 'python constant %r' % (got,))
            elif kind == 'enumerator':
                en = nodes.get('EE' + name[2:])
                mv = en.members[0].value if en else None
                if str(mv) != str(v):
                    viol('model|enumerator|%s' % opsk, etext, v, 'model enumerator %r' % (mv,))
                if mod is not None:
                    got = getattr(mod, name, None)
                    if got != v or type(got) is not int:
                        viol('python|enumerator|%s' % opsk, etext, v, 'python enumerator %r' % (got,))
            elif kind == 'disc':
                un = nodes.get(name)
                mv = un.members[0].discriminator if un else None
                if str(mv) != str(v):
                    viol('model|disc|%s' % opsk, etext, v, 'model discriminator %r' % (mv,))
                if mod is not None:
                    try:
                        got = getattr(mod, name)().discriminator
                    except Exception as e:      # noqa
                        got = repr(e)
                    if got != v:
                        viol('python|disc|%s' % opsk, etext, v, 'python discriminator %r' % (got,))
            elif kind == 'array':
                st = nodes.get(name)
                want = array_expect(kind, v, None)
                if st is None or st.members[0].numeric_size != v or st.byte_size != want:
                    viol('model|array|%s' % opsk, etext, v, 'model numeric_size %r byte_size %r (expected %d, %d)' % (
                        st and st.members[0].numeric_size, st and st.byte_size, v, want))
                if mod is not None:
                    try:
                        m = getattr(mod, name)()
                        got = (len(m.a), len(m.encode('<')))
                    except Exception as e:      # noqa
                        got = repr(e)
                    if got != (v, want):
                        viol('python|array|%s' % opsk, etext, v, 'python array length / encoding size %r' % (got,))
            # ---- model-time evaluator on every expression it can read (no octal literal)
            if kind == 'const' and not has_octal(etext):
                out['calc'] += 1
                try:
                    got = prophyc.calc.eval(etext, dict(X.NAMES))
                except Exception as e:      # noqa
                    got = repr(e)
                if got != v or type(got) is not int:
                    viol('calc|%s|%s' % (type(got).__name__, opsk), etext, v, 'calc.eval gives %r' % (got,))
        # ---- C++ constants
        if do_cpp:
            for header, ns in (('m.pp.hpp', ''), ('m.ppf.hpp', 'prophy::generated::')):
                # the raw header declares swap<> for every type: fine, only constants are read
                vals, err = cpp_values(d, header, ns, expect)
                if vals is None:
                    viol('cpp|%s|does-not-compile' % header, '(batch)', 0, err)
                    continue
                for name, kind, v, etext in expect:
                    out['checks'] += 1
                    want = array_expect(kind, v, None) if kind == 'array' else v
                    if vals.get(name) != want:
                        opsk = '+'.join(sorted(set(t for t in ('/', '<<', '>>', '*', '-', '+') if t in etext)))
                        viol('cpp|%s|%s|%s' % (header, kind, opsk), etext, v, 'C++ value %r, expected %r' % (vals.get(name), want))
        if len(out['samples']) < 2:
            out['samples'] = [{'expr': e[3], 'value': e[2], 'site': e[1]} for e in expect[len(expect) // 2:len(expect) // 2 + 2]]
        shutil.rmtree(d, ignore_errors=True)
    except Exception:       # noqa
        out['harness_error'] = traceback.format_exc()
    return out


def judge_isar(job):
    """Isar front-end: constants whose value is an expression (also shiftLeft / bitMaskOr forms)."""
    items, tier, division = job
    T.setup_repo()
    out = {'viol': [], 'exprs': 0, 'checks': 0}
    seen = {}

    def viol(key, text, v, detail):
        if division and ('|python' in key):
            # recorded finding F24: the isar front-end hands expression text verbatim to the back-ends
            key = 'isar|verbatim-expression-reevaluated-by-backend'
        seen[key] = seen.get(key, 0) + 1
        out['viol'].append((key, {'expr': text, 'value': v, 'detail': detail, 'frontend': 'isar'} if seen[key] <= 2 else None))

    try:
        lines = [ISAR_HEADER]
        expect = []
        for i, tree, v in items:
            # portable spelling: fully parenthesised, no division -> every back-end language agrees on its value;
            # other spellings are re-evaluated by the back-end language (recorded finding F24)
            text = (X.render_min(tree) if division else X.render_full(tree)).replace('<<', '@SHL@')
            if has_octal(text) or 'E_X' in text or abs(v) >= 1 << 53:
                # isar has no octal literals; enumerator references depend on definition ordering (C15's subject)
                continue
            if (not division) and '/' in text:
                continue
            if division and not ('/' in text or '>>' in text or '@SHL@' in text):
                continue
            if '@SHL@' in text:
                if division:
                    continue
                # isar spells a left shift shiftLeft(a, b)
                if tree[0] != 'bin' or tree[1] != '<<' or '<<' in X.render_full(tree[2]) + X.render_full(tree[3]):
                    continue
                text = 'shiftLeft(%s, %s)' % (X.render_full(tree[2]), X.render_full(tree[3]))
            lines.append('<constant name="K%d" value="%s"/>' % (i, text))
            expect.append(('K%d' % i, v, text))
            if 1 <= v <= 40:
                lines.append('<struct name="SA%d"><member name="a" type="u8"><dimension size="K%d"/></member></struct>' % (i, i))
        lines.append('</xml>\n')
        res = T.compile_text('\n'.join(lines), outs=('python',), mode='isar')
        out['exprs'] = len(expect)
        if not res.ok:
            viol('isar|prophyc-rejects|%s' % res.exc_type, '(batch)', 0, str(res.exc)[:300])
            return out
        nodes = dict((n.name, n) for n in res.nodes['m'])
        try:
            mod = T.import_generated(res.files['m.py'])
        except Exception as e:      # noqa
            mod = None
            viol('isar|python-import-fails|%s' % type(e).__name__, '(batch)', 0, str(e)[:300])
        for name, v, text in expect:
            out['checks'] += 2
            opsk = '+'.join(sorted(set(t for t in ('/', 'shiftLeft', '*', '-', '+') if t in text)))
            st = nodes.get('SA' + name[1:])
            if st is not None and (st.members[0].numeric_size != v or st.byte_size != v):
                viol('isar|model|array|%s' % opsk, text, v, 'array sized by %s: numeric_size %r byte_size %r' % (
                    name, st.members[0].numeric_size, st.byte_size))
            if mod is not None:
                got = getattr(mod, name, None)
                if got != v or type(got) is not int:
                    viol('isar|python|const|%s|%s' % (type(got).__name__, opsk), text, v,
                         'python constant evaluates to %r, the schema value is %d' % (got, v))
                if st is not None:
                    try:
                        ln = len(getattr(mod, 'SA' + name[1:])().a)
                    except Exception as e:  # noqa
                        ln = repr(e)
                    if ln != v:
                        viol('isar|python|array|%s' % opsk, text, v, 'python array length %r' % (ln,))
        shutil.rmtree(res.outdir, ignore_errors=True)
    except Exception:       # noqa
        out['harness_error'] = traceback.format_exc()
    return out


def judge_two_files(job):
    """The same size expression in two isar files of one run, over constants of different values: each file
    must get its own value (nothing keyed by expression text may leak from one file to the other)."""
    items, tier = job
    T.setup_repo()
    out = {'viol': [], 'exprs': 0, 'checks': 0}
    seen = {}
    try:
        envs = {'one': {'A': 6, 'B': 20, 'INC': 5}, 'two': {'A': 2, 'B': 3, 'INC': 9}}
        d = T.fresh_dir('c14t')
        expect = {}
        for fname, env in envs.items():
            lines = ['<xml>'] + ['<constant name="%s" value="%d"/>' % (k, v) for k, v in sorted(env.items())]
            for i, tree, v in items:
                text = X.render_full(tree)
                if '<' in text or '/' in text or has_octal(text) or 'E_X' in text:
                    continue
                try:
                    val = X.evaluate(tree, env)
                    v1, v2 = X.evaluate(tree, envs['one']), X.evaluate(tree, envs['two'])
                except X.Invalid:
                    continue
                if not 1 <= v1 <= 60 or not 1 <= v2 <= 60 or v1 == v2:
                    continue
                lines.append('<struct name="SA%d_%s"><member name="a" type="u8"><dimension size="%s"/></member></struct>' % (
                    i, fname, text))
                expect[('SA%d_%s' % (i, fname), fname)] = (val, text)
            lines.append('</xml>')
            with open(os.path.join(d, fname + '.xml'), 'w') as f:
                f.write('\n'.join(lines) + '\n')
        out['exprs'] = len(expect) // 2
        for order in (('one', 'two'), ('two', 'one')):
            res = T.run_prophyc(['--isar', '--python_out', d, '--cpp_full_out', d] + [os.path.join(d, n + '.xml') for n in order])
            if not res.ok:
                out['viol'].append(('two-files|prophyc-fails|%s' % res.exc_type, {'expr': '(batch)', 'value': 0, 'two_files': True,
                                                                                   'detail': str(res.exc)[:300]}))
                continue
            for (sname, fname), (val, text) in expect.items():
                out['checks'] += 1
                node = dict((n.name, n) for n in res.nodes[fname]).get(sname)
                if node is None or node.members[0].numeric_size != val or node.byte_size != val:
                    key = 'two-files|array-size-from-the-other-file'
                    seen[key] = seen.get(key, 0) + 1
                    out['viol'].append((key, {'expr': text, 'value': val, 'two_files': True, 'order': list(order), 'file': fname,
                                              'detail': 'size expression %s in %s.xml: model numeric_size %r byte_size %r, expected %d '
                                                        '(inputs given as %s)' % (text, fname, node and node.members[0].numeric_size,
                                                                                  node and node.byte_size, val, list(order))}
                                        if seen[key] <= 2 else None))
        shutil.rmtree(d, ignore_errors=True)
    except Exception:       # noqa
        out['harness_error'] = traceback.format_exc()
    return out


def run(ctx):
    items = [(i, t, v) for i, (t, v) in enumerate(X.universe(ctx.tier))]
    batches = [items[k:k + BATCH] for k in range(0, len(items), BATCH)]
    # C++ constants are compiled for every batch in thorough, every 4th in quick (+ the first two: simplest expressions)
    jobs = []
    for bi, b in enumerate(batches):
        do_cpp = ctx.tier == 'thorough' or bi < 2 or (bi + ctx.seed) % 4 == 0
        jobs.append((b, ctx.tier, do_cpp))
    ncpp = sum(1 for j in jobs if j[2])
    if ncpp < len(jobs):
        ctx.cap('C++ constants compiled for %d of %d batches in the quick tier (all Python/model/calc sites are complete)' % (
            ncpp, len(jobs)))
    sites = {}

    def fold(res):
        if 'harness_error' in res:
            raise HarnessError(res['harness_error'])
        ctx.cov['states'] += res['exprs']
        ctx.cov['transitions'] += res['checks']
        ctx.cov['traces_validated_against_impl'] += res['checks']
        ctx.cov['evaluations'] += res['checks']
        for key, art in res['viol']:
            ctx.violation_counts[key] = ctx.violation_counts.get(key, 0) + 1
            if art is not None and len(ctx.violations.setdefault(key, [])) < 3:
                ctx.violations[key].append(art)

    for res in ctx.pmap(judge_batch, jobs):
        fold(res)
        for k, n in res['sites'].items():
            sites[k] = sites.get(k, 0) + n
        ctx.cov['calc_evaluations'] = ctx.cov.get('calc_evaluations', 0) + res['calc']
        for s in res['samples']:
            ctx.sample(s)
    for res in ctx.pmap(judge_isar, [(b, ctx.tier, dv) for b in batches for dv in (False, True)]):
        fold(res)
        ctx.cov['isar_expressions'] = ctx.cov.get('isar_expressions', 0) + res['exprs']
    named = [it for it in items if 'name' in X.kinds(it[1])]
    for res in ctx.pmap(judge_two_files, [(named[k:k + 2000], ctx.tier) for k in range(0, len(named), 2000)]):
        fold(res)
        ctx.cov['two_file_expressions'] = ctx.cov.get('two_file_expressions', 0) + res['exprs']
    for key in [k for k, v in ctx.violations.items() if not v]:
        del ctx.violations[key]
    ctx.cov['sites'] = sites
    ctx.cov['distinct_nontrivial'] = sum(1 for i, t, v in items if t[0] != 'leaf')
    ctx.cov['rule'] = ('states = distinct expression strings: all trees with <= 3 operators (binary + - * / << >> and unary minus) '
                       'over the literal/name alphabets of vf/exprs.py, rendered with minimal and with full parentheses; '
                       'division only with non-negative operands and non-zero divisor, shift counts 0..3. transitions = site '
                       'observations: model node value, generated Python value and type, array extent and encoding size, '
                       'discriminator, C++ enum values / extents (compiled), calc.eval, isar constants. non-trivial = '
                       'expression with at least one operator.')
    ctx.assumptions += ['precedence: + - < * / < << >> < unary minus, binary operators left associative (as the grammar declares)']


def replay(art):
    import prophyc.calc
    text, v = art['expr'], art['value']
    if text == '(batch)':
        return None
    if art.get('two_files'):
        d = T.fresh_dir('c14tr')
        for fname, env in (('one', {'A': 6, 'B': 20, 'INC': 5}), ('two', {'A': 2, 'B': 3, 'INC': 9})):
            with open(os.path.join(d, fname + '.xml'), 'w') as f:
                f.write('<xml>%s<struct name="SA_%s"><member name="a" type="u8"><dimension size="%s"/></member></struct></xml>' % (
                    ''.join('<constant name="%s" value="%d"/>' % kv for kv in sorted(env.items())), fname, text))
        res = T.run_prophyc(['--isar', '--python_out', d] + [os.path.join(d, n + '.xml') for n in art['order']])
        if not res.ok:
            return 'prophyc fails: %s' % res.exc
        node = dict((n.name, n) for n in res.nodes[art['file']])['SA_' + art['file']]
        if node.members[0].numeric_size != v:
            return 'size expression %s in %s.xml (inputs %s): numeric_size %r, expected %d' % (
                text, art['file'], art['order'], node.members[0].numeric_size, v)
        return None
    problems = []
    if art.get('frontend') == 'isar':
        xml = ISAR_HEADER + '<constant name="K" value="%s"/>\n</xml>\n' % text
        res = T.compile_text(xml, outs=('python',), mode='isar')
        if not res.ok:
            return 'prophyc rejects: %s' % res.exc
        mod = T.import_generated(res.files['m.py'])
        if mod.K != v or type(mod.K) is not int:
            problems.append('isar python constant %r, schema value %d' % (mod.K, v))
    else:
        d = T.fresh_dir('c14r')
        with open(os.path.join(d, 'inc.prophy'), 'w') as f:
            f.write('const INC = 5;\n')
        src = HEADER + 'const K = %s;\n' % text
        if 0 <= v < 2 ** 31:
            src += 'enum EE { EV = %s };\nunion UD { %s: u8 a; };\n' % (text, text)
        if 1 <= v <= 40:
            src += 'struct SA { u8 a[%s]; };\n' % text
        res = compile_with_inc(src, ('python', 'cpp', 'cpp_full'), d)
        if not res.ok:
            return 'expression %s: prophyc fails: %s' % (text, res.exc)
        try:
            mod = T.import_generated(res.files['m.py'])
            if mod.K != v or type(mod.K) is not int:
                problems.append('python constant %r' % (mod.K,))
            if hasattr(mod, 'EV') and (mod.EV != v or type(mod.EV) is not int):
                problems.append('python enumerator %r' % (mod.EV,))
            if hasattr(mod, 'SA') and len(mod.SA().a) != v:
                problems.append('python array length %r' % len(mod.SA().a))
        except Exception as e:      # noqa
            problems.append('python import: %r' % e)
        nodes = dict((n.name, n) for n in res.nodes['m'])
        if str(nodes['K'].value) != str(v):
            problems.append('model constant %r' % nodes['K'].value)
        expect = [('K', 'const', v, text)]
        for header, ns in (('m.pp.hpp', ''), ('m.ppf.hpp', 'prophy::generated::')):
            vals, err = cpp_values(d, header, ns, expect)
            if vals is None:
                problems.append('%s does not compile' % header)
            elif vals['K'] != v:
                problems.append('%s constant %r' % (header, vals['K']))
        try:
            got = prophyc.calc.eval(text, dict(X.NAMES))
            if (got != v or type(got) is not int) and not has_octal(text):
                problems.append('calc.eval %r' % (got,))
        except Exception as e:      # noqa
            if not has_octal(text):
                problems.append('calc.eval raises %r' % e)
    if problems:
        return 'expression %s = %d\n%s' % (text, v, '\n'.join(problems))
    return None
