"""C05 C++ full codec: get_byte_size equals bytes written; encode stays in bounds."""
from .. import cppfull


def run(ctx):
    cppfull.run_cpp(ctx, ['C05'], ops=('overfill', 'clear', 'fresh', 'build'))
    ctx.assumptions += ['values are delivered to the C++ object by decoding canonical bytes, then mutated (limited vectors '
                        'resized past their limit; arrays cleared and optionals reset); the default-constructed object of every type is '
                        'reported without any decode (op fresh)']


def replay(art):
    return cppfull.replay(art, 'C05')
