"""C12 Whatever prophyc accepts, every back-end can realise; rule breakers are rejected."""
import os
import shutil
import subprocess
import traceback

from .. import schema as S, refmodel as R, universe as U, toolchain as T, sse
from ..run import HarnessError

M = S.M
BATCH = 200


# ---------------------------------------------------------------------------
# positive part: every accepted state is realisable by every back-end
# ---------------------------------------------------------------------------

def syntax_check(workdir, source):
    inc = os.path.join(T.REPO, 'prophy_cpp', 'include')
    p = subprocess.run(['g++', '-std=gnu++14', '-w', '-fsyntax-only', '-I', inc, '-I', workdir, os.path.join(workdir, source)],
                       stdout=subprocess.PIPE, stderr=subprocess.STDOUT)
    return p.returncode == 0, p.stdout.decode('utf-8', 'replace')[:1200]


def realise(text, workdir=None, name='m'):
    """Run prophyc with all three back-ends and try to use every artefact.
    Returns (accepted?, {'prophyc': msg} | {'python': ok/msg, 'cpp_full': ..., 'cpp': ...}, result)."""
    res = T.compile_text(text, outs=('python', 'cpp', 'cpp_full'), workdir=workdir, name=name)
    if not res.ok:
        return False, {'prophyc': '%s: %s' % (res.exc_type, str(res.exc)[:300])}, res
    out = {}
    try:
        T.import_generated(res.files[name + '.py'])
        out['python'] = 'ok'
    except Exception as e:      # noqa
        out['python'] = 'import fails: %s: %s' % (type(e).__name__, str(e)[:200])
    ok, msg = syntax_check(res.outdir, name + '.ppf.cpp')
    out['cpp_full'] = 'ok' if ok else 'does not compile: ' + msg[:300]
    ok, msg = syntax_check(res.outdir, name + '.pp.cpp')
    out['cpp'] = 'ok' if ok else 'does not compile: ' + msg[:300]
    return True, out, res


def judge_positive(job):
    states, tier = job
    T.setup_repo()
    out = {'viol': [], 'states': 0, 'artefacts': 0, 'refused_by_design': 0, 'samples': []}
    seen = {}
    nsingle = [0]

    def go(sts):
        defs, tops = U.batch_defs(sts)
        text = S.render_prophy(defs)
        accepted, status, res = realise(text)
        try:
            if not accepted:
                if 'Multiple arrays bounded by the same member' in status['prophyc'] and any(
                        sym[0] == 'ext2' for st in sts if st.kind == 'struct' for sym in st.symbols):
                    # designed refusal of the full C++ generator: realise the other two back-ends
                    r2 = T.compile_text(text, outs=('python', 'cpp'))
                    if r2.ok:
                        out['refused_by_design'] += sum(1 for st in sts if any(sym[0] == 'ext2' for sym in st.symbols)
                                                        ) if all(st.kind == 'struct' for st in sts) else 1
                        shutil.rmtree(r2.outdir, ignore_errors=True)
                        if len(sts) > 1:
                            keep = [st for st in sts if not (st.kind == 'struct' and any(sym[0] == 'ext2' for sym in st.symbols))]
                            if keep and len(keep) < len(sts):
                                go(keep)
                        return
                bad = 'prophyc'
            else:
                bad = next((k for k in ('python', 'cpp_full', 'cpp') if status[k] != 'ok'), None)
            if bad is None:
                out['artefacts'] += 3 * len(sts)
                return
            if len(sts) > 1:
                if nsingle[0] >= 6:
                    # enough single culprits isolated in this batch: report the rest of the failing group as a group
                    key = 'valid-schema|%s-unusable|one of a group of states (not bisected further)' % bad
                    seen[key] = seen.get(key, 0) + 1
                    out['viol'].append((key, {'schema': text, 'state': ' ; '.join(st.key for st in sts[:40]),
                                              'detail': '%s: %s' % (bad, status[bad])} if seen[key] <= 1 else None))
                    return
                mid = len(sts) // 2
                go(sts[:mid])
                go(sts[mid:])
                return
            st = sts[0]
            nsingle[0] += 1
            ref = R.Ref(defs)
            from .. import pyjudge
            key = 'valid-schema|%s-unusable|%s' % (bad, pyjudge._shape_key(ref, tops[0], st))
            seen[key] = seen.get(key, 0) + 1
            t1, d1 = sse.state_text(st, 'X')
            out['viol'].append((key, {'schema': t1, 'state': st.key, 'detail': '%s: %s' % (bad, status[bad])}
                                if seen[key] <= 2 else None))
        finally:
            if res.outdir:
                shutil.rmtree(res.outdir, ignore_errors=True)

    try:
        out['states'] = len(states)
        go(list(states))
        out['samples'] = [{'state': st.key} for st in states[:1]]
    except Exception:       # noqa
        out['harness_error'] = traceback.format_exc()
    return out


# ---------------------------------------------------------------------------
# negative part: one rule-breaking edit of a valid schema
# ---------------------------------------------------------------------------

PRE = '''enum E { E_A = 1, E_B = 2 };
struct F { u8 p; u16 q; };
struct D { u16 h; u8 d<>; };
struct G { u16 h; u8 g<...>; };
struct DD { D d; u8 t; };
struct GG { u8 t; G g; };
typedef D TD;
typedef TD TTD;
typedef G TG;
union UF { 1: u8 a; 2: F f; };
const ZERO = 0;
const NEG = 0 - 3;
const BIG = 0x100000000;
'''


# A file in which the names the rule breakers misuse are harmless: compiled first in the same run, it must not make
# prophyc any more lenient towards the file that follows.
WARMUP = '''enum E { E_A = 1, E_B = 2 };
struct F { u8 p; u16 q; };
struct D { u16 h; u8 d[2]; };
struct G { u16 h; u8 g[2]; };
struct DD { D d; u8 t; };
struct GG { u8 t; G g; };
typedef D TD;
typedef TD TTD;
typedef G TG;
union UF { 1: u8 a; 2: F f; };
typedef u16 TS;
typedef TS TTS;
const ZERO = 1;
const NEG = 3;
const BIG = 16;
struct Y { TS n; u8 a<@n>; TTS m; u16 b<@m>; };
struct W { D a[2]; G b<2>; TD* o; TG c<>; TTD e<ZERO>; u8 z[NEG]; };
union WU { 1: D a; 2: TG b; BIG: u8 c; };
struct X { u8 n; u8 a<@n>; };
'''


def breakers():
    """(rule, variant, text of the definitions that break the rule).  PRE is prepended to all."""
    out = []
    dyn = ['D', 'DD', 'TD', 'TTD']
    unl = ['G', 'GG', 'TG']
    spots = [('only', '%s'), ('first', '%s u8 z;'), ('last', 'u8 z; %s'), ('after-dynamic', 'u8 w<>; %s')]
    # unlimited not last
    for t in ('u8', 'u32', 'F', 'bytes', 'D'):
        out.append(('unlimited-not-last', 'greedy(%s)' % t, 'struct X { %s g<...>; u8 z; };' % t))
        out.append(('unlimited-not-last', 'greedy(%s)+dynamic' % t, 'struct X { %s g<...>; u8 z<>; };' % t))
        out.append(('unlimited-not-last', 'two-greedy(%s)' % t, 'struct X { %s g<...>; %s h<...>; };' % (t, t)))
    for t in unl:
        out.append(('unlimited-not-last', 'struct(%s)' % t, 'struct X { %s g; u8 z; };' % t))
        out.append(('unlimited-not-last', 'struct(%s)+optional' % t, 'struct X { %s g; u8* z; };' % t))
    # unlimited in any array
    for t in unl:
        for label, form in (('fixed', 'a[2]'), ('limited', 'a<2>'), ('dynamic', 'a<>'), ('greedy', 'a<...>')):
            for sl, spot in spots:
                if label == 'greedy' and sl == 'first':
                    continue
                out.append(('unlimited-in-array', '%s(%s)@%s' % (label, t, sl), 'struct X { %s };' % (spot % ('%s %s;' % (t, form)))))
        out.append(('unlimited-in-array', 'ext(%s)' % t, 'struct X { u8 n; %s a<@n>; };' % t))
    # dynamic in fixed / limited array
    for t in dyn:
        for label, form in (('fixed', 'a[2]'), ('limited', 'a<2>')):
            for sl, spot in spots:
                out.append(('dynamic-in-sized-array', '%s(%s)@%s' % (label, t, sl), 'struct X { %s };' % (spot % ('%s %s;' % (t, form)))))
    # dynamic / unlimited optional
    for t in dyn + unl:
        for sl, spot in spots:
            out.append(('dynamic-optional', '%s@%s' % (t, sl), 'struct X { %s };' % (spot % ('%s* o;' % t))))
    # dynamic / unlimited union arm
    for t in dyn + unl:
        out.append(('dynamic-union-arm', '%s@only' % t, 'union X { 1: %s a; };' % t))
        out.append(('dynamic-union-arm', '%s@second' % t, 'union X { 1: u8 z; 2: %s a; };' % t))
    # sizers
    out.append(('sizer', 'missing', 'struct X { u8 a<@n>; };'))
    out.append(('sizer', 'missing-other-fields', 'struct X { u8 m; u8 a<@n>; };'))
    out.append(('sizer', 'after-array', 'struct X { u8 a<@n>; u8 n; };'))
    out.append(('sizer', 'in-other-struct', 'struct Y { u8 n; }; struct X { Y y; u8 a<@n>; };'))
    out.append(('sizer', 'optional', 'struct X { u8* n; u8 a<@n>; };'))
    out.append(('sizer', 'optional-u32', 'struct X { u32* n; u16 a<@n>; u8 z; };'))
    for t in ('float', 'double', 'F', 'E', 'UF'):
        out.append(('sizer', 'non-integer(%s)' % t, 'struct X { %s n; u8 a<@n>; };' % t))
    for t in ('float', 'double', 'F', 'E', 'UF'):
        out.append(('sizer', 'non-integer(typedef %s)' % t, 'typedef %s TS; struct X { TS n; u8 a<@n>; };' % t))
        out.append(('sizer', 'non-integer(typedef typedef %s)' % t, 'typedef %s TS; typedef TS TTS; struct X { TTS n; u8 a<@n>; };' % t))
    out.append(('sizer', 'is-array', 'struct X { u8 n[2]; u8 a<@n>; };'))
    out.append(('sizer', 'is-itself', 'struct X { u8 a<@a>; };'))
    # duplicates
    for a, b in (('struct X { u8 a; };', 'struct X { u8 b; };'), ('struct X { u8 a; };', 'enum X { X_A = 1 };'),
                 ('struct X { u8 a; };', 'union X { 1: u8 a; };'), ('typedef u8 X;', 'struct X { u8 a; };'),
                 ('typedef u8 X;', 'typedef u16 X;'), ('const X = 1;', 'const X = 2;'), ('const X = 1;', 'struct X { u8 a; };'),
                 ('enum Y { X = 1 };', 'const X = 2;'), ('enum Y { X = 1 };', 'struct X { u8 a; };'),
                 ('struct X { u8 a; };', 'struct F { u8 b; };')):
        out.append(('duplicate', 'type:%s|%s' % (a.split()[0], b.split()[0]), a + '\n' + b))
    out.append(('duplicate', 'member', 'struct X { u8 a; u16 a; };'))
    out.append(('duplicate', 'member-array', 'struct X { u8 a; u16 a<>; };'))
    out.append(('duplicate', 'member-vs-counter', 'struct X { u32 num_of_a; u8 a<>; };'))
    out.append(('duplicate', 'enumerator', 'enum X { X_A = 1, X_A = 2 };'))
    out.append(('duplicate', 'enumerator-across-enums', 'enum X { X_A = 1 }; enum Y { X_A = 2 };'))
    out.append(('duplicate', 'enumerator-vs-existing', 'enum X { E_A = 5 };'))
    out.append(('duplicate', 'arm-name', 'union X { 1: u8 a; 2: u16 a; };'))
    out.append(('duplicate', 'discriminator', 'union X { 1: u8 a; 1: u16 b; };'))
    out.append(('duplicate', 'discriminator-via-constant', 'const ONE = 1; union X { 1: u8 a; ONE: u16 b; };'))
    out.append(('duplicate', 'discriminator-via-expression', 'union X { 2: u8 a; 1 + 1: u16 b; };'))
    # non-positive array sizes
    for label, form in (('fixed', 'a[%s]'), ('limited', 'a<%s>')):
        for vl, val in (('zero', '0'), ('negative', '-1'), ('zero-constant', 'ZERO'), ('negative-constant', 'NEG'),
                        ('zero-expression', '2 - 2'), ('negative-expression', '1 - 2')):
            for t in ('u8', 'F', 'bytes'):
                out.append(('non-positive-size', '%s(%s)=%s' % (label, t, vl), 'struct X { %s %s; };' % (t, form % val)))
    # 32-bit ranges
    for vl, val in (('2^32', '4294967296'), ('2^32+1', '0x100000001'), ('2^32-constant', 'BIG'), ('-1', '-1'),
                    ('-2^31-1', '-2147483649'), ('2^64', '0x10000000000000000')):
        out.append(('enum-out-of-32-bits', vl, 'enum X { X_A = %s };' % val))
        out.append(('enum-out-of-32-bits', vl + '@second', 'enum X { X_Z = 0, X_A = %s };' % val))
        out.append(('discriminator-out-of-32-bits', vl, 'union X { %s: u8 a; };' % val))
        out.append(('discriminator-out-of-32-bits', vl + '@second', 'union X { 1: u8 z; %s: u8 a; };' % val))
    return out


def judge_negative(job):
    items, tier = job
    T.setup_repo()
    out = {'viol': [], 'cases': 0, 'outcomes': {}, 'samples': []}
    try:
        for rule, variant, text in items:
            full = PRE + text + '\n'
            accepted, status, res = realise(full)
            out['cases'] += 1
            try:
                if not accepted:
                    msg = status['prophyc']
                    if msg.startswith('ProphycError'):
                        # the same file as the second input of a run whose first input uses the same names harmlessly
                        d2 = T.fresh_dir('c12w')
                        try:
                            warm = os.path.join(d2, 'warm.prophy')
                            with open(warm, 'w') as f:
                                f.write(WARMUP)
                            r2 = T.compile_text(full, outs=('python',), workdir=d2, extra=(warm,))
                            out['cases'] += 1
                            if r2.ok:
                                out['viol'].append(('accepted-rule-breaker-after-harmless-file|%s|%s' % (rule, variant.split('@')[0]),
                                                    {'rule': rule, 'variant': variant, 'schema': full, 'warmup': WARMUP,
                                                     'detail': 'rejected alone, accepted as "prophyc warm.prophy m.prophy"'}))
                        finally:
                            shutil.rmtree(d2, ignore_errors=True)
                        out['outcomes']['rejected-with-diagnostic'] = out['outcomes'].get('rejected-with-diagnostic', 0) + 1
                        if len(out['samples']) < 2:
                            out['samples'].append({'rule': rule, 'variant': variant, 'schema': text, 'diagnostic': msg[:160]})
                    else:
                        out['outcomes']['rejected-without-diagnostic'] = out['outcomes'].get('rejected-without-diagnostic', 0) + 1
                        out['viol'].append(('rule-breaker-not-a-diagnostic|%s|%s' % (rule, msg.split(':')[0]),
                                            {'rule': rule, 'variant': variant, 'schema': full, 'detail': msg}))
                    continue
                out['outcomes']['accepted'] = out['outcomes'].get('accepted', 0) + 1
                usable = ','.join('%s=%s' % (k, 'ok' if status[k] == 'ok' else 'FAILS') for k in ('python', 'cpp_full', 'cpp'))
                vk = variant.split('@')[0]
                out['viol'].append(('accepted-rule-breaker|%s|%s' % (rule, vk),
                                    {'rule': rule, 'variant': variant, 'schema': full,
                                     'detail': 'prophyc accepts a schema that breaks the rule "%s" (%s); back-ends: %s; %s' % (
                                         rule, variant, usable, '; '.join('%s: %s' % (k, v) for k, v in status.items() if v != 'ok'))}))
            finally:
                if res.outdir:
                    shutil.rmtree(res.outdir, ignore_errors=True)
    except Exception:       # noqa
        out['harness_error'] = traceback.format_exc()
    return out


def run(ctx):
    states = list(U.all_states(ctx.tier, ctx.seed, coarse=True))
    refused = 0
    for res in ctx.pmap(judge_positive, [(b, ctx.tier) for b in U.batches(states, BATCH)]):
        if 'harness_error' in res:
            raise HarnessError(res['harness_error'])
        ctx.cov['states'] += res['states']
        ctx.cov['transitions'] += res['artefacts']
        ctx.cov['traces_validated_against_impl'] += res['artefacts']
        ctx.cov['evaluations'] += res['artefacts']
        refused += res['refused_by_design']
        for s in res['samples']:
            ctx.sample(s, limit=2)
        for key, art in res['viol']:
            ctx.violation_counts[key] = ctx.violation_counts.get(key, 0) + 1
            if art is not None and len(ctx.violations.setdefault(key, [])) < 3:
                ctx.violations[key].append(art)
    items = breakers()
    ctx.cov['rule_breakers'] = len(items)
    for res in ctx.pmap(judge_negative, [(items[k:k + 12], ctx.tier) for k in range(0, len(items), 12)]):
        if 'harness_error' in res:
            raise HarnessError(res['harness_error'])
        ctx.cov['states'] += res['cases']
        ctx.cov['transitions'] += res['cases']
        ctx.cov['traces_validated_against_impl'] += res['cases']
        ctx.cov['evaluations'] += res['cases']
        ctx.cov['distinct_nontrivial'] += res['cases']
        for k, n in res['outcomes'].items():
            ctx.outcome(k, n)
        for s in res['samples']:
            ctx.sample(s)
        for key, art in res['viol']:
            ctx.violation_counts[key] = ctx.violation_counts.get(key, 0) + 1
            if art is not None and len(ctx.violations.setdefault(key, [])) < 3:
                ctx.violations[key].append(art)
    for key in [k for k, v in ctx.violations.items() if not v]:
        del ctx.violations[key]
    ctx.cov['states_refused_by_full_generator_by_design'] = refused
    ctx.cov['rule'] = ('positive: states = every schema state of the C++ universe; for each, prophyc with all three back-ends, '
                       'import of the generated module, g++ -fsyntax-only of <schema>.ppf.cpp and <schema>.pp.cpp against the '
                       'shipped headers (transitions = artefacts used). negative: every rule of the documented catalogue x '
                       'element types (direct, nested, typedef, typedef of typedef) x array forms x positions = %d one-edit '
                       'rule breakers; prophyc must refuse each with a ProphycError diagnostic. non-trivial = rule breakers.'
                       % len(items))
    if len(ctx.cov['outcomes']) < 1:
        raise HarnessError('no rule breaker outcome recorded')


def replay(art):
    if 'warmup' in art:
        d2 = T.fresh_dir('c12w')
        try:
            warm = os.path.join(d2, 'warm.prophy')
            with open(warm, 'w') as f:
                f.write(art['warmup'])
            r2 = T.compile_text(art['schema'], outs=('python',), workdir=d2, extra=(warm,))
            if r2.ok:
                return 'prophyc warm.prophy m.prophy accepts m.prophy:\n%s\nafter warm.prophy:\n%s' % (art['schema'], art['warmup'])
            return None
        finally:
            shutil.rmtree(d2, ignore_errors=True)
    if 'rule' in art:
        accepted, status, res = realise(art['schema'])
        if res.outdir:
            shutil.rmtree(res.outdir, ignore_errors=True)
        if accepted:
            return 'prophyc accepts:\n%s\nback-ends: %s' % (art['schema'], status)
        if not status['prophyc'].startswith('ProphycError'):
            return 'not a diagnostic: %s' % status['prophyc']
        return None
    accepted, status, res = realise(art['schema'])
    if res.outdir:
        shutil.rmtree(res.outdir, ignore_errors=True)
    if not accepted:
        return 'prophyc rejects a valid schema:\n%s\n%s' % (art['schema'], status)
    bad = [k for k in ('python', 'cpp_full', 'cpp') if status[k] != 'ok']
    if bad:
        return 'schema:\n%s\n%s' % (art['schema'], '; '.join('%s: %s' % (k, status[k]) for k in bad))
    return None
