"""C16 Multi-file schemas with includes equal their single-file concatenation."""
import itertools
import os
import shutil
import sys
import traceback

from .. import schema as S, refmodel as R, values as V, toolchain as T
from ..run import HarnessError

M = S.M


def bases(tier='thorough'):
    E = S.Enum('E', [('E_A', 1), ('E_B', 4)])
    out = {}
    out['const_enum_struct'] = [S.Const('K', '3'), E, S.Struct('F', [M('p', 'u8'), M('e', 'E')]),
                                S.Struct('X', [M('f', 'F', S.FIXED, 'K'), M('t', 'u16', S.DYNAMIC)])]
    out['typedef_union'] = [S.Typedef('T', 'u16'), S.Typedef('TT', 'T'), S.Struct('F', [M('a', 'TT'), M('b', 'u8')]),
                            S.Union('U', [S.Arm(1, 'u8', 'x'), S.Arm(2, 'F', 'y')]), S.Struct('X', [M('u', 'U'), M('o', 'F', S.OPT)])]
    out['diamond'] = [S.Struct('A', [M('a', 'u8')]), S.Struct('B', [M('a', 'A'), M('x', 'u16')]),
                      S.Struct('C', [M('a', 'A', S.DYNAMIC)]), S.Struct('X', [M('b', 'B'), M('c', 'C')])]
    out['chain_dynamic'] = [S.Struct('D', [M('v', 'u8', S.DYNAMIC)]), S.Struct('DD', [M('d', 'D'), M('t', 'u8')]),
                            S.Struct('X', [M('n', 'u8'), M('dd', 'DD', S.EXT, 'n'), M('g', 'u64', S.GREEDY)])]
    out['const_expr'] = [S.Const('A', '2'), S.Const('B', 'A + 1'), S.Enum('EN', [('EN_X', 'B'), ('EN_Y', 'B * 2')]),
                         S.Struct('X', [M('a', 'u8', S.FIXED, 'B'), M('e', 'EN'), M('l', 'u16', S.LIMITED, 'EN_Y')])]
    out['union_disc_const'] = [S.Const('D1', '7'), E, S.Union('U', [S.Arm('D1', 'u8', 'a'), S.Arm('E_B', 'E', 'e')]),
                               S.Struct('X', [M('u', 'U', S.FIXED, 2)])]
    out['independent'] = [S.Struct('A', [M('a', 'u8')]), S.Struct('B', [M('b', 'u16')]), S.Struct('X', [M('x', 'u32', S.OPT)])]
    out['typedef_struct_chain'] = [S.Struct('F', [M('p', 'u8'), M('q', 'u64')]), S.Typedef('TF', 'F'), S.Typedef('TTF', 'TF'),
                                   S.Struct('X', [M('a', 'TTF', S.LIMITED, 2), M('b', 'TF', S.OPT)])]
    out['typedef_sizer_chain'] = [S.Typedef('TLen', 'u32'), S.Typedef('TCount', 'TLen'), S.Typedef('TN', 'TCount'),
                                  S.Struct('X', [M('n', 'TN'), M('d', 'u8', S.EXT, 'n'), M('m', 'TCount'), M('e', 'u16', S.EXT, 'm')])]
    if tier == 'thorough':
        out['five_layers'] = [S.Const('N', '2'), S.Enum('EN', [('EN_A', 'N'), ('EN_B', 'N + 3')]),
                              S.Struct('L1', [M('e', 'EN'), M('a', 'u8', S.FIXED, 'N')]),
                              S.Struct('L2', [M('l', 'L1', S.DYNAMIC), M('o', 'L1', S.OPT)]),
                              S.Struct('X', [M('n', 'u16'), M('l2', 'L2', S.EXT, 'n'), M('t', 'u8', S.LIMITED, 'EN_B')])]
        out['union_of_unions'] = [S.Struct('P', [M('a', 'u64')]), S.Union('U1', [S.Arm(1, 'u8', 'a'), S.Arm(2, 'P', 'p')]),
                                  S.Typedef('TU1', 'U1'), S.Union('U2', [S.Arm(1, 'TU1', 'u'), S.Arm(2, 'u16', 'b')]),
                                  S.Struct('X', [M('u', 'U2', S.LIMITED, 2), M('o', 'TU1', S.OPT)])]
    return out


def resolve_consts(defs):
    """Reference view of the definitions: constants / enumerators evaluated (our own arithmetic)."""
    env = {}
    out = []

    def ev(x):
        if isinstance(x, int):
            return x
        return int(eval(str(x), {'__builtins__': {}}, dict(env)))
    for d in defs:
        if isinstance(d, S.Const):
            env[d.name] = ev(d.expr)
            out.append(S.Const(d.name, str(env[d.name])))
        elif isinstance(d, S.Enum):
            ms = []
            for n, v in d.members:
                env[n] = ev(v)
                ms.append((n, env[n]))
            out.append(S.Enum(d.name, ms))
        elif isinstance(d, S.Struct):
            out.append(S.Struct(d.name, [S.Member(m.name, m.type, m.form, ev(m.arg) if m.form in (S.FIXED, S.LIMITED) else m.arg)
                                         for m in d.members]))
        elif isinstance(d, S.Union):
            out.append(S.Union(d.name, [S.Arm(ev(a.disc), a.type, a.name) for a in d.arms]))
        else:
            out.append(d)
    return out, env


def names_used(d):
    """Names of other definitions (types, constants, enumerators) a definition mentions."""
    import re
    used = set(S.deps_of(d))
    exprs = []
    if isinstance(d, S.Const):
        exprs.append(str(d.expr))
    elif isinstance(d, S.Enum):
        exprs += [str(v) for n, v in d.members]
    elif isinstance(d, S.Struct):
        exprs += [str(m.arg) for m in d.members if m.form in (S.FIXED, S.LIMITED)]
    elif isinstance(d, S.Union):
        exprs += [str(a.disc) for a in d.arms]
    for e in exprs:
        used.update(re.findall(r'[A-Za-z_][A-Za-z0-9_]*', e))
    return used


def provides(d):
    out = {d.name}
    if isinstance(d, S.Enum):
        out.update(n for n, v in d.members)
    return out


def partitions(defs, maxfiles=3):
    """All assignments of definitions to files 0..k-1 (every file non-empty) with dependencies pointing
    to the same or a lower file; within a file the original order is kept."""
    n = len(defs)
    prov = [provides(d) for d in defs]
    deps = []
    for j, d in enumerate(defs):
        u = names_used(d)
        deps.append([i for i in range(j) if prov[i] & u])
    for k in range(2, maxfiles + 1):
        for assign in itertools.product(range(k), repeat=n):
            if len(set(assign)) != k:
                continue
            if all(assign[i] <= assign[j] for j in range(n) for i in deps[j]):
                yield k, assign, deps


FILE_STEMS = ['geometry', 'history', 'top', 'happy']      # stems ending in letters of ".prophy" on purpose


def type_stems(defs, k, assign):
    """File stems equal to the name of the first type each file defines (Point.prophy defines struct Point)."""
    stems = []
    for j in range(k):
        mine = [defs[i] for i in range(len(defs)) if assign[i] == j and not isinstance(defs[i], S.Const)]
        stems.append(mine[0].name if mine else FILE_STEMS[j])
    return stems


def file_texts(defs, k, assign, deps, include_all, stems=None):
    """-> [(filename, text)] ; file j includes every lower file it uses directly (or all lower files);
    include_all == 'common' additionally makes every file include a declaration-free common file."""
    texts = []
    if include_all == 'typenames':
        stems, include_all = type_stems(defs, k, assign), True
    stems = stems or FILE_STEMS
    for j in range(k):
        mine = [i for i in range(len(defs)) if assign[i] == j]
        need = set()
        for i in mine:
            for dep in deps[i]:
                if assign[dep] != j:
                    need.add(assign[dep])
        if include_all:
            need = set(range(j))
        lines = ['#include "%s.prophy"' % stems[f] for f in sorted(need)]
        if include_all == 'common':
            lines.insert(0, '#include "common.prophy"')
        lines += [S.render_def(defs[i]) for i in mine]
        texts.append(('%s.prophy' % stems[j], '\n'.join(lines) + '\n'))
    if include_all == 'common':
        texts.insert(0, ('common.prophy', '// shared header without declarations\n/* nothing here */\n'))
    return texts


ARRANGEMENTS = ('same-dir', 'one-include-dir', 'two-include-dirs', 'other-cwd-absolute', 'parent-cwd-relative',
                'lib-dir-with-decoy', 'main-dir-is-first-I')
MAIN_ALONE = ('lib-dir-with-decoy', 'main-dir-is-first-I')


def decoy_of(text):
    """A valid file with the same names and other layouts / values (must never be the one that gets compiled)."""
    return text.replace('u8 ', 'u32 ').replace('u16 ', 'u64 ').replace(' = 2;', ' = 4;').replace(' = 3;', ' = 6;').replace(' = 7;', ' = 9;')


def layout_on_disk(root, texts, arrangement):
    """Write the files; returns (cwd, argv tail: -I options + input paths in dependency order, out dir)."""
    out = os.path.join(root, 'out')
    os.makedirs(out)
    src = os.path.join(root, 'src')
    os.makedirs(src)
    paths = {}
    k = len(texts)
    for j, (fn, text) in enumerate(texts):
        if arrangement in ('one-include-dir', 'lib-dir-with-decoy') and j < k - 1:
            d = os.path.join(root, 'inc1')
        elif arrangement == 'two-include-dirs' and j < k - 1:
            d = os.path.join(root, 'inc%d' % (1 + j % 2))
        elif arrangement == 'main-dir-is-first-I' and j < k - 1 and j % 2 == 1:
            d = os.path.join(src, 'sub')
        else:
            d = src
        os.makedirs(d, exist_ok=True)
        paths[fn] = os.path.join(d, fn)
        with open(paths[fn], 'w') as f:
            f.write(text)
    if arrangement == 'lib-dir-with-decoy':
        # next to the main file: a different file under the name of every file the main file reaches only through
        # another include (found in the library directory, whose own directory has to win)
        main_text = texts[-1][1]
        for fn, text in texts[:-1]:
            if ('"%s"' % fn) not in main_text and decoy_of(text) != text:
                with open(os.path.join(src, fn), 'w') as f:
                    f.write(decoy_of(text))
    incs = []
    for d in ('inc1', 'inc2'):
        if os.path.isdir(os.path.join(root, d)):
            incs += ['-I', os.path.join(root, d)]
    if arrangement == 'other-cwd-absolute':
        cwd = os.path.join(root, 'elsewhere')
        os.makedirs(cwd)
        inputs = [paths[fn] for fn, _ in texts]
    elif arrangement == 'parent-cwd-relative':
        cwd = root
        inputs = [os.path.relpath(paths[fn], root) for fn, _ in texts]
        incs = [os.path.relpath(x, root) if x != '-I' else x for x in incs]
    else:
        cwd = src
        inputs = [os.path.relpath(paths[fn], src) for fn, _ in texts]
    if arrangement == 'lib-dir-with-decoy':
        inputs = inputs[-1:]        # the main file alone: its includes are resolved, not taken from the cache of earlier inputs
    if arrangement == 'main-dir-is-first-I':
        # the main file's own directory is also the first -I entry, spelled exactly like the directory part of the input;
        # files in src/sub reach their own includes (kept in src) only through that entry
        cwd = root
        os.makedirs(os.path.join(src, 'sub'), exist_ok=True)
        incs = ['-I', 'src', '-I', os.path.join('src', 'sub')]
        inputs = [os.path.join('src', texts[-1][0])]
    return cwd, incs + inputs, out, paths


def headers_that_do_not_compile(outdir, stems):
    import subprocess
    inc = os.path.join(T.REPO, 'prophy_cpp', 'include')
    bad = []
    for stem in stems:
        for ext in ('.pp.hpp', '.ppf.hpp'):
            h = os.path.join(outdir, stem + ext)
            if not os.path.exists(h):
                bad.append((stem + ext, 'not generated'))
                continue
            p = subprocess.run(['g++', '-std=gnu++14', '-w', '-fsyntax-only', '-x', 'c++', '-I', inc, '-I', outdir, h],
                               stdout=subprocess.PIPE, stderr=subprocess.STDOUT)
            if p.returncode:
                bad.append((stem + ext, p.stdout.decode('utf-8', 'replace')[:400]))
    return bad


_open_log = []
_open_on = [False]


def _audit(event, args):
    if _open_on[0] and event == 'open' and args and isinstance(args[0], str) and args[0].endswith('.prophy'):
        _open_log.append(os.path.abspath(args[0]))


_hook = [False]


def judge(job):
    bname, tier = job
    T.setup_repo()
    import prophy
    if not _hook[0]:
        sys.addaudithook(_audit)
        _hook[0] = True
    out = {'viol': [], 'partitions': 0, 'runs': 0, 'values': 0, 'samples': [], 'negative': 0}
    seen = {}

    def viol(key, detail, files, arrangement):
        seen[key] = seen.get(key, 0) + 1
        out['viol'].append((key, {'base': bname, 'files': files, 'arrangement': arrangement, 'detail': detail}
                            if seen[key] <= 2 else None))

    home = os.getcwd()
    try:
        defs = bases()[bname]
        maxfiles = 3 if tier == 'quick' else 4
        rdefs, env = resolve_consts(defs)
        ref = R.Ref(rdefs)
        single = T.compile_text(S.render_prophy(defs), outs=('python',), name='single')
        if not single.ok:
            out['harness_error'] = 'base %s does not compile: %s' % (bname, single.exc)
            return out
        smod = T.import_generated(single.files['single.py'])
        snodes = dict((n.name, n) for n in single.nodes['single'])
        comps = [d.name for d in defs if isinstance(d, (S.Struct, S.Union))]
        vals = dict((c, V.Values(ref, tier).enumerate(c, 12)[0]) for c in comps)
        for k, assign, deps in partitions(defs, maxfiles):
            out['partitions'] += 1
            for include_all in (False, True, 'common', 'typenames'):
                texts = file_texts(defs, k, assign, deps, include_all)
                if include_all is True and texts == file_texts(defs, k, assign, deps, False):
                    continue
                stems_now = type_stems(defs, k, assign) if include_all == 'typenames' else FILE_STEMS
                if include_all == 'typenames' and len(set(stems_now)) < k:
                    continue
                for arrangement in (ARRANGEMENTS if include_all != 'typenames' else ARRANGEMENTS[:2]):
                    if arrangement in MAIN_ALONE and include_all is not False:
                        continue
                    root = T.fresh_dir('c16')
                    try:
                        cwd, tail, outdir, paths = layout_on_disk(root, texts, arrangement)
                        os.chdir(cwd)
                        del _open_log[:]
                        _open_on[0] = True
                        try:
                            with_cpp = arrangement == 'same-dir' and include_all in (False, 'typenames')
                            cpp_too = ['--cpp_out', outdir, '--cpp_full_out', outdir] if with_cpp else []
                            res = T.run_prophyc(['--python_out', os.path.relpath(outdir, cwd) if arrangement == 'parent-cwd-relative'
                                                 else outdir] + cpp_too + tail)
                        finally:
                            _open_on[0] = False
                            os.chdir(home)
                        out['runs'] += 1
                        files = dict(texts)
                        if not res.ok:
                            viol('multi-file-build-fails|%s|%s' % (arrangement, res.exc_type), str(res.exc)[:300], files, arrangement)
                            continue
                        opened = {}
                        for p in _open_log:
                            opened[p] = opened.get(p, 0) + 1
                        if arrangement in MAIN_ALONE:
                            real = set(os.path.abspath(p) for p in paths.values())
                            stray = [p for p in opened if p not in real]
                            if stray:
                                viol('decoy-file-read|%s' % arrangement, 'opened %s instead of the file next to its includer' % (
                                    [os.path.relpath(p, root) for p in stray],), files, arrangement)
                            for i, d in enumerate(defs):
                                if assign[i] == k - 1 and isinstance(d, (S.Struct, S.Union)):
                                    node = dict((n.name, n) for n in res.nodes[stems_now[k - 1]]).get(d.name)
                                    if node is None or (node.byte_size, node.alignment) != (snodes[d.name].byte_size, snodes[d.name].alignment):
                                        viol('layout-differs|%s' % arrangement, '%s: %s, single-file build %s' % (
                                            d.name, node and (node.byte_size, node.alignment),
                                            (snodes[d.name].byte_size, snodes[d.name].alignment)), files, arrangement)
                            continue
                        multi = [p for p, n in opened.items() if n != 1]
                        missing = [p for p in paths.values() if os.path.abspath(p) not in opened]
                        if multi or missing:
                            viol('file-not-read-exactly-once|%s' % arrangement,
                                 'opened %s' % dict((os.path.basename(p), n) for p, n in opened.items()), files, arrangement)
                        if with_cpp:
                            # every generated header has to compile on its own (it includes what it needs)
                            bad = headers_that_do_not_compile(outdir, [fn[:-7] for fn, _ in texts])
                            out['headers'] = out.get('headers', 0) + 2 * len(texts)
                            if bad:
                                viol('generated-header-does-not-compile-alone|%s' % bad[0][0].split('.', 1)[1], '%s: %s' % bad[0],
                                     files, arrangement)
                        # every file has an output; the last one sees every definition
                        try:
                            mods = {}
                            for fn, _ in texts:
                                stem = fn[:-7]
                                mods[stem] = T.import_generated(os.path.join(outdir, stem + '.py'))
                            stem_of = dict((j, stems_now[j]) for j in range(k))
                        except Exception as e:      # noqa
                            viol('generated-module-import-fails|%s|%s' % (arrangement, type(e).__name__), str(e)[:300], files,
                                 arrangement)
                            continue
                        for i, d in enumerate(defs):
                            mod = mods[stem_of[assign[i]]]
                            if isinstance(d, S.Const):
                                if getattr(mod, d.name, None) != env[d.name] or getattr(smod, d.name) != env[d.name]:
                                    viol('constant-differs', '%s: multi %r single %r expected %r' % (
                                        d.name, getattr(mod, d.name, None), getattr(smod, d.name), env[d.name]), files, arrangement)
                            elif isinstance(d, S.Enum):
                                for n, v in d.members:
                                    if getattr(mod, n, None) != env[n]:
                                        viol('enumerator-differs', '%s: multi %r expected %r' % (n, getattr(mod, n, None), env[n]),
                                             files, arrangement)
                            elif isinstance(d, (S.Struct, S.Union)):
                                cls, scls = getattr(mod, d.name), getattr(smod, d.name)
                                node = dict((n.name, n) for n in res.nodes[stem_of[assign[i]]]).get(d.name)
                                lay = ref.layout(d.name)
                                if (cls._SIZE, cls._ALIGNMENT) != (scls._SIZE, scls._ALIGNMENT) or node is None or \
                                        (node.byte_size, node.alignment) != (snodes[d.name].byte_size, snodes[d.name].alignment) or \
                                        (node.byte_size, node.alignment) != (lay.size, lay.align):
                                    viol('layout-differs|%s' % arrangement, '%s: multi (%s,%s) model %s single (%s,%s) rules %s' % (
                                        d.name, cls._SIZE, cls._ALIGNMENT, node and (node.byte_size, node.alignment), scls._SIZE,
                                        scls._ALIGNMENT, (lay.size, lay.align)), files, arrangement)
                                    continue
                                for v in vals[d.name]:
                                    out['values'] += 1
                                    a = T.build(ref, d.name, v, cls()).encode('<')
                                    b = T.build(ref, d.name, v, scls()).encode('<')
                                    want = ref.encode(d.name, v, '<')[0]
                                    if a != b or a != want:
                                        viol('encoding-differs|%s' % arrangement, '%s %r: multi %s single %s rules %s' % (
                                            d.name, v, a.hex(), b.hex(), want.hex()), files, arrangement)
                                        break
                        if len(out['samples']) < 1 and k == 3:
                            out['samples'].append({'base': bname, 'files': files, 'arrangement': arrangement})
                    finally:
                        os.chdir(home)
                        shutil.rmtree(root, ignore_errors=True)
                # a missing and a cyclic include must be errors, never dropped silently
                for kind in ('missing', 'cyclic'):
                    root = T.fresh_dir('c16n')
                    try:
                        t2 = list(texts)
                        first = 1 if t2[0][0] == 'common.prophy' else 0
                        if kind == 'cyclic':
                            if ('"%s.prophy"' % FILE_STEMS[0]) not in t2[-1][1]:
                                t2[-1] = (t2[-1][0], '#include "%s.prophy"\n' % FILE_STEMS[0] + t2[-1][1])
                            t2[first] = (t2[first][0], '#include "%s.prophy"\n' % FILE_STEMS[k - 1] + t2[first][1])
                        cwd, tail, outdir, paths = layout_on_disk(root, t2, 'same-dir')
                        if kind == 'missing':
                            if '#include' not in t2[-1][1]:
                                continue
                            victim = [fn for fn, _ in t2 if ('"%s"' % fn) in t2[-1][1] and fn != 'common.prophy']
                            if not victim:
                                continue
                            victim = victim[0]
                            os.remove(paths[victim])
                            tail = [a for a in tail if not a.endswith(victim)]
                        os.chdir(cwd)
                        try:
                            res = T.run_prophyc(['--python_out', outdir] + tail)
                        finally:
                            os.chdir(home)
                        out['negative'] += 1
                        if res.ok:
                            viol('%s-include-accepted' % kind, 'prophyc succeeded', dict(t2), 'same-dir')
                        elif res.exc_type != 'ProphycError':
                            viol('%s-include-not-a-diagnostic|%s' % (kind, res.exc_type), str(res.exc)[:200], dict(t2), 'same-dir')
                    finally:
                        os.chdir(home)
                        shutil.rmtree(root, ignore_errors=True)
        shutil.rmtree(single.outdir, ignore_errors=True)
    except Exception:       # noqa
        out['harness_error'] = traceback.format_exc()
    finally:
        os.chdir(home)
    return out


def judge_shadow(job):
    """Two schema sets in two directories, each with its own, identically named include file, compiled in
    one run: every main file must see the include of its own directory."""
    pair, tier = job
    T.setup_repo()
    out = {'viol': [], 'runs': 0}
    home = os.getcwd()
    try:
        (na, nb) = pair
        root = T.fresh_dir('c16s')
        outdir = os.path.join(root, 'out')
        os.makedirs(outdir)
        expect = {}
        argv = ['--python_out', outdir, '--cpp_out', outdir]
        for tag, bname in (('a', na), ('b', nb)):
            defs = bases()[bname]
            rdefs, env = resolve_consts(defs)
            ref = R.Ref(rdefs)
            d = os.path.join(root, 'dir_' + tag)
            os.makedirs(d)
            # rename everything so that both sets can live in one output directory
            text_inc = '\n'.join(S.render_def(x) for x in defs[:-1]) + '\n'
            text_main = '#include "defs.prophy"\n' + S.render_def(defs[-1]) + '\n'
            for old, new in [(x.name, x.name + '_' + tag) for x in defs] + [
                    (n, n + '_' + tag) for x in defs if isinstance(x, S.Enum) for n, v in x.members]:
                import re
                text_inc = re.sub(r'\b%s\b' % old, new, text_inc)
                text_main = re.sub(r'\b%s\b' % old, new, text_main)
            with open(os.path.join(d, 'defs.prophy'), 'w') as f:
                f.write(text_inc)
            with open(os.path.join(d, 'main_%s.prophy' % tag), 'w') as f:
                f.write(text_main)
            argv.append(os.path.join(d, 'main_%s.prophy' % tag))
            lay = ref.layout(defs[-1].name)
            expect['main_' + tag] = (defs[-1].name + '_' + tag, lay.size, lay.align)
        for order in (argv, argv[:4] + [argv[5], argv[4]]):
            res = T.run_prophyc(order)
            out['runs'] += 1
            files = {}
            for tag in 'ab':
                for fn in ('defs.prophy', 'main_%s.prophy' % tag):
                    files['dir_%s/%s' % (tag, fn)] = open(os.path.join(root, 'dir_' + tag, fn)).read()
            if not res.ok:
                out['viol'].append(('same-named-includes-in-two-dirs|build-fails|%s' % res.exc_type,
                                    {'base': '%s+%s' % pair, 'files': files, 'arrangement': 'shadow',
                                     'detail': str(res.exc)[:300], 'shadow': list(pair)}))
                continue
            for stem, (tname, size, align) in expect.items():
                node = dict((n.name, n) for n in res.nodes[stem]).get(tname)
                if node is None or (node.byte_size, node.alignment) != (size, align):
                    out['viol'].append(('same-named-includes-in-two-dirs|layout-differs',
                                        {'base': '%s+%s' % pair, 'files': files, 'arrangement': 'shadow', 'shadow': list(pair),
                                         'detail': '%s: model %s, expected %s' % (tname, node and (node.byte_size, node.alignment),
                                                                                   (size, align))}))
        shutil.rmtree(root, ignore_errors=True)
    except Exception:       # noqa
        out['harness_error'] = traceback.format_exc()
    finally:
        os.chdir(home)
    return out


# ---------------------------------------------------------------------------
# isar: a file that includes another through xi:include
# ---------------------------------------------------------------------------

ISAR_INC = ('<xml><constant name="IK" value="2"/><enum name="IE"><enum-member name="IE_A" value="3"/><enum-member name="IE_B" value="4"/>'
            '</enum><struct name="IF"><member name="p" type="u8"/><member name="q" type="u16"/></struct></xml>')
ISAR_USERS = {
    'constant-as-size': '<struct name="X"><member name="a" type="u8"><dimension size="IK"/></member></struct>',
    'struct-and-enum-as-types': '<struct name="X"><member name="f" type="IF"/><member name="e" type="IE"/></struct>',
    'enumerator-as-size': '<struct name="X"><member name="a" type="u16"><dimension size="IE_A"/></member></struct>',
    'enumerator-as-limit': '<struct name="X"><member name="a" type="u8"><dimension isVariableSize="true" size="IE_B"/></member></struct>',
    'enumerator-as-discriminator': '<union name="X"><member name="a" type="u8" discriminatorValue="IE_A"/>'
                                   '<member name="b" type="u16" discriminatorValue="IE_B"/></union>',
}


def judge_isar_include(job):
    T.setup_repo()
    out = {'viol': [], 'runs': 0}
    try:
        for label, user in sorted(ISAR_USERS.items()):
            d = T.fresh_dir('c16i')
            try:
                with open(os.path.join(d, 'inc.xml'), 'w') as f:
                    f.write(ISAR_INC)
                with open(os.path.join(d, 'main.xml'), 'w') as f:
                    f.write('<xml xmlns:xi="http://www.w3.org/2001/XInclude"><xi:include href="inc.xml"/>%s</xml>' % user)
                multi = T.run_prophyc(['--isar', '--python_out', d, os.path.join(d, 'inc.xml'), os.path.join(d, 'main.xml')])
                single = T.compile_text(ISAR_INC.replace('</xml>', user + '</xml>'), outs=('python',), mode='isar', name='single')
                out['runs'] += 2
                art = {'isar_include': label, 'files': {'inc.xml': ISAR_INC, 'main.xml': user}, 'arrangement': 'same-dir', 'detail': ''}
                if not single.ok:
                    out['harness_error'] = 'single-file isar build fails: %s' % single.exc
                    return out
                if not multi.ok:
                    out['viol'].append(('isar-include|build-fails|%s|%s' % (multi.exc_type, label), dict(art, detail=str(multi.exc)[:300])))
                    continue
                smod = T.import_generated(single.files['single.py'])
                try:
                    mod = T.import_generated(os.path.join(d, 'main.py'))
                except Exception as e:      # noqa
                    out['viol'].append(('isar-include|module-import-fails|%s|%s' % (type(e).__name__, label),
                                        dict(art, detail='%s: %s' % (type(e).__name__, str(e)[:200]))))
                    continue
                a, b = mod['X']() if isinstance(mod, dict) else getattr(mod, 'X')(), \
                    smod['X']() if isinstance(smod, dict) else getattr(smod, 'X')()
                if (a._SIZE, a._ALIGNMENT) != (b._SIZE, b._ALIGNMENT) or a.encode('<') != b.encode('<'):
                    out['viol'].append(('isar-include|layout-differs|%s' % label, dict(art, detail='multi %s single %s' % (
                        a.encode('<').hex(), b.encode('<').hex()))))
                shutil.rmtree(single.outdir, ignore_errors=True)
            finally:
                shutil.rmtree(d, ignore_errors=True)
    except Exception:       # noqa
        out['harness_error'] = traceback.format_exc()
    return out


def run(ctx):
    for res in ctx.pmap(judge_isar_include, [None]):
        if 'harness_error' in res:
            raise HarnessError(res['harness_error'])
        ctx.cov['transitions'] += res['runs']
        ctx.cov['evaluations'] += res['runs']
        ctx.cov['traces_validated_against_impl'] += res['runs']
        ctx.cov['isar_include_runs'] = res['runs']
        for key, art in res['viol']:
            ctx.violation_counts[key] = ctx.violation_counts.get(key, 0) + 1
            if len(ctx.violations.setdefault(key, [])) < 3:
                ctx.violations[key].append(art)
    names = sorted(bases(ctx.tier))
    for res in ctx.pmap(judge, [(n, ctx.tier) for n in names]):
        if 'harness_error' in res:
            raise HarnessError(res['harness_error'])
        ctx.cov['states'] += res['partitions']
        ctx.cov['transitions'] += res['runs'] + res['negative']
        ctx.cov['traces_validated_against_impl'] += res['runs'] + res['negative']
        ctx.cov['evaluations'] += res['runs'] + res['negative']
        ctx.cov['distinct_nontrivial'] += res['partitions']
        ctx.cov['encodings_compared'] = ctx.cov.get('encodings_compared', 0) + res['values']
        for s in res['samples']:
            ctx.sample(s, limit=3)
        for key, art in res['viol']:
            ctx.violation_counts[key] = ctx.violation_counts.get(key, 0) + 1
            if art is not None and len(ctx.violations.setdefault(key, [])) < 3:
                ctx.violations[key].append(art)
    import itertools as _it
    pairs = [p for p in _it.permutations(names, 2)]
    for res in ctx.pmap(judge_shadow, [(p, ctx.tier) for p in pairs]):
        if 'harness_error' in res:
            raise HarnessError(res['harness_error'])
        ctx.cov['transitions'] += res['runs']
        ctx.cov['evaluations'] += res['runs']
        ctx.cov['traces_validated_against_impl'] += res['runs']
        ctx.cov['same_named_include_runs'] = ctx.cov.get('same_named_include_runs', 0) + res['runs']
        for key, art in res['viol']:
            ctx.violation_counts[key] = ctx.violation_counts.get(key, 0) + 1
            if len(ctx.violations.setdefault(key, [])) < 3:
                ctx.violations[key].append(art)
    for key in [k for k, v in ctx.violations.items() if not v]:
        del ctx.violations[key]
    ctx.cov['rule'] = ('states = (base schema, partition): %d base schemas x every assignment of their declarations to 2..%d '
                       'files with dependencies pointing to the same or a lower file (direct, chained and diamond includes; '
                       'minimal and all-lower include lists); transitions = prophyc runs over the arrangements %s plus a missing '
                       'and a cyclic include variant of every partition. Checked per run: every generated module imports, '
                       'constants / enumerators / layouts / encodings over V(T) equal the single-file build and the reference '
                       'model, every input file is opened exactly once (Python audit hook on open).' % (len(names), 3 if ctx.tier == 'quick' else 4, list(ARRANGEMENTS)))
    ctx.assumptions += ['opens are counted in-process through sys.addaudithook (no change to the code under test)']


def replay(art):
    T.setup_repo()
    if art.get('isar_include'):
        out = judge_isar_include(None)
        hits = [a for k, a in out['viol'] if a['isar_include'] == art['isar_include']]
        if hits:
            return 'isar xi:include, %s: %s' % (art['isar_include'], hits[0]['detail'])
        return None
    if art.get('shadow'):
        out = judge_shadow((tuple(art['shadow']), 'quick'))
        if out['viol']:
            return 'two directories with an identically named include: %s' % (out['viol'][0],)
        return None
    root = T.fresh_dir('c16r')
    home = os.getcwd()
    try:
        texts = sorted(art['files'].items())
        cwd, tail, outdir, paths = layout_on_disk(root, texts, art['arrangement'])
        os.chdir(cwd)
        try:
            res = T.run_prophyc(['--python_out', outdir] + tail)
        finally:
            os.chdir(home)
        if 'include-accepted' in art['detail'] or 'prophyc succeeded' in art['detail']:
            return 'prophyc accepts: %s' % art['files'] if res.ok else None
        if not res.ok:
            return 'prophyc fails on %s (%s): %s' % (art['files'], art['arrangement'], res.exc)
        # re-run the whole base: cheapest faithful replay
        out = judge((art['base'], 'quick'))
        keys = sorted(set(k for k, a in out['viol']))
        if keys:
            return 'base %s: %s\n%s' % (art['base'], keys, [a for k, a in out['viol'] if a][0])
        return None
    finally:
        os.chdir(home)
        shutil.rmtree(root, ignore_errors=True)
