"""C01 Python encode emits exactly the documented wire format."""
from .. import pyjudge, sse, toolchain as T, values as V, refmodel as R


def run(ctx):
    pyjudge.run_sse(ctx, ['C01'])
    ctx.assumptions += [
        'the reference model reads docs/encoding.rst as intended (it reproduces all worked examples of the rst)',
        'values outside the value universe and structs beyond the level/length bounds are not explored',
    ]


def replay(art):
    ref, mod, defs, res = sse.load_artefact(art)
    if ref is None:
        return 'prophyc rejected the schema: %s' % res.exc
    v = V.tree_from_json(art['value'])
    e = art['endian']
    exp, spans = ref.encode(art['top'], v, e)
    try:
        cls = getattr(mod, art['top'])
        if art.get('build') == 'fresh':
            m = cls()
            got = exp
            for e2 in '<><>':
                g = m.encode(e2)
                if g != ref.encode(art['top'], v, e2)[0]:
                    got, e, exp = g, e2, ref.encode(art['top'], v, e2)[0]
                    break
        elif art.get('build') == 'sparse':
            from .. import apimodel as A
            got = A.build_sparse(ref, A.ApiModel(ref), art['top'], v, cls()).encode(e)
        else:
            got = T.build(ref, art['top'], v, cls()).encode(e)
    except Exception as ex:     # noqa
        return 'encode raised %s: %s' % (type(ex).__name__, ex)
    if got != exp:
        return 'schema:\n%s\nvalue: %r\nendian %s\nexpected %s\ngot      %s\n%s' % (
            art['schema'], v, e, exp.hex(), got.hex(), sse.diagnose(ref, art['top'], exp, spans, got))
    return None
