"""C09 Raw C++ swap converts a whole foreign-endian message to native in place."""
from .. import cppraw, universe as U, toolchain as T
from ..run import HarnessError


def run(ctx):
    from .. import docexamples
    n, problems = docexamples.selftest(T.REPO)
    if problems:
        raise HarnessError('oracle self-test failed: ' + '; '.join(problems[:3]))
    states = list(U.all_states(ctx.tier, ctx.seed, coarse=True))
    rejected = []
    nstates = 0
    for res in ctx.pmap(cppraw.judge_swap_batch, [(b, ctx.tier) for b in U.batches(states, cppraw.RAW_BATCH)]):
        if 'harness_error' in res:
            raise HarnessError(res['harness_error'])
        nstates += res['states']
        ctx.cov['states'] += res['values']
        ctx.cov['transitions'] += res['exec']
        ctx.cov['traces_validated_against_impl'] += res['exec']
        ctx.cov['evaluations'] += res['exec']
        ctx.cov['distinct_nontrivial'] += res['nontrivial']
        ctx.cov['greedy_tail_cases'] = ctx.cov.get('greedy_tail_cases', 0) + res['greedy']
        rejected += res['rejected']
        for s in res['samples']:
            ctx.sample(s)
        for key, art in res['viol']:
            ctx.violation_counts[key] = ctx.violation_counts.get(key, 0) + 1
            if art is not None and len(ctx.violations.setdefault(key, [])) < 3:
                ctx.violations[key].append(art)
    for key in [k for k, v in ctx.violations.items() if not v]:
        del ctx.violations[key]
    ctx.cov['schema_states'] = nstates
    ctx.cov['rejected_states'] = len(rejected)
    ctx.cov['rejected_samples'] = [list(r) for r in rejected[:4]]
    ctx.cov['rule'] = ('states = (schema state, value) pairs; the big-endian canonical encoding is placed at an 8-aligned '
                       'address inside an exact heap block framed by canaries, prophy::swap<T> is called (g++, ASan), and '
                       'the buffer must equal the little-endian canonical encoding, canaries untouched, returned pointer = '
                       'start + aligned length (greedy tail: members before the unlimited member converted, its address '
                       'returned). non-trivial = encoding with padding or a counted part.')
    ctx.assumptions += ['little-endian host: foreign = big endian']


def replay(art):
    return cppraw.replay_swap(art)
