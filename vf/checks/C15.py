"""C15 Definition order does not matter: output is dependency-ordered and complete."""
import itertools
import shutil
import traceback

from .. import schema as S, refmodel as R, toolchain as T
from ..run import HarnessError

KINDS = ('const', 'enum', 'typedef', 'struct', 'union')
ALLOWED = {
    'const': ('const', 'enum'),
    'enum': ('const', 'enum'),
    'typedef': ('typedef', 'struct', 'union', 'enum'),
    'struct': KINDS,
    'union': KINDS,
}
PREFIX = {'const': 'K', 'enum': 'E', 'typedef': 'T', 'struct': 'S', 'union': 'U'}


def graphs(n):
    """All definition sets of n nodes: node i has a kind and depends on a subset of earlier nodes (any acyclic
    dependency graph has such a numbering); only dependency forms the schema languages can express."""
    for kinds in itertools.product(KINDS, repeat=n):
        choices = []
        for i in range(n):
            cand = [j for j in range(i) if kinds[j] in ALLOWED[kinds[i]]]
            subsets = []
            for r in range(len(cand) + 1):
                for sub in itertools.combinations(cand, r):
                    if kinds[i] == 'typedef' and len(sub) > 1:
                        continue
                    subsets.append(sub)
            choices.append(subsets)
        for deps in itertools.product(*choices):
            yield kinds, deps


def name_of(kinds, i):
    if kinds[i] == 'const' and i % 2:
        return '_K%d' % i          # identifiers may start with an underscore
    return '%s%d' % (PREFIX[kinds[i]], i)


def build(kinds, deps):
    """-> (ast defs in topological order for the reference model, xml elements by node index, dependency names,
    constant values)"""
    n = len(kinds)
    values = {}
    defs, xml, depnames = [], [], []
    for i in range(n):
        name = name_of(kinds, i)
        k = kinds[i]
        dn = [name_of(kinds, j) for j in deps[i]]
        depnames.append(dn)
        if k == 'const':
            expr, val = str(i + 2), i + 2
            for idx, j in enumerate(deps[i]):
                jn = name_of(kinds, j)
                sym = jn if kinds[j] == 'const' else jn + 'V'
                base = values[jn]
                form = (i + idx + j) % 6
                if form == 4:
                    # the expression starts with a literal
                    expr, val = '2*%s' % sym if idx == 0 else '%s + 2*%s' % (expr, sym), (base * 2 if idx == 0 else val + base * 2)
                elif form == 5:
                    expr, val = '1 + %s' % sym if idx == 0 else '%s + %s' % (expr, sym), (base + 1 if idx == 0 else val + base)
                elif form == 1:
                    expr, val = '%s*2' % sym if idx == 0 else '%s + %s*2' % (expr, sym), (base * 2 if idx == 0 else val + base * 2)
                elif form == 2:
                    term, tv = 'shiftLeft(%s, 1)' % sym, base * 2
                    expr, val = (term, tv) if idx == 0 else ('%s + %s' % (expr, term), val + tv)
                elif form == 3:
                    term, tv = 'bitMaskOr((%s), 0)' % sym, base
                    expr, val = (term, tv) if idx == 0 else ('%s + %s' % (expr, term), val + tv)
                else:
                    expr, val = '%s + 1' % sym if idx == 0 else '%s + %s' % (expr, sym), (base + 1 if idx == 0 else val + base)
            values[name] = val
            defs.append(S.Const(name, str(val)))
            xml.append('<constant name="%s" value="%s"/>' % (name, expr))
        elif k == 'enum':
            expr, val = str(i + 1), i + 1
            for idx, j in enumerate(deps[i]):
                jn = name_of(kinds, j)
                sym = jn if kinds[j] == 'const' else jn + 'V'
                if (i + j) % 3 == 2 and idx == 0:
                    expr, val = '1 + %s' % sym, values[jn] + 1          # literal first
                else:
                    expr, val = ('%s + 1' % sym, values[jn] + 1) if idx == 0 else ('%s + %s' % (expr, sym), val + values[jn])
            values[name] = val
            defs.append(S.Enum(name, [(name + 'V', val)]))
            xml.append('<enum name="%s"><enum-member name="%sV" value="%s"/></enum>' % (name, name, expr))
        elif k == 'typedef':
            if deps[i]:
                target = name_of(kinds, deps[i][0])
                defs.append(S.Typedef(name, target))
                xml.append('<typedef name="%s" type="%s"/>' % (name, target))
            else:
                defs.append(S.Typedef(name, 'u16'))
                xml.append('<typedef name="%s" primitiveType="16 bit integer unsigned"/>' % name)
        elif k == 'struct':
            members, mx = [], []
            for j in deps[i]:
                jn = name_of(kinds, j)
                if kinds[j] == 'const':
                    members.append(S.M('a%d' % j, 'u8', S.FIXED, values[jn]))
                    mx.append('<member name="a%d" type="u8"><dimension size="%s"/></member>' % (j, jn))
                elif kinds[j] == 'enum' and (i + j) % 2 and j % 2 == 0:
                    # ... as the limit of a limited array
                    members.append(S.M('a%d' % j, 'u8', S.LIMITED, values[jn]))
                    mx.append('<member name="a%d" type="u8"><dimension isVariableSize="true" size="%sV"/></member>' % (j, jn))
                elif kinds[j] == 'enum' and (i + j) % 2:
                    # the dependency is an array size that names the enumerator (not a member of the enum's type)
                    members.append(S.M('a%d' % j, 'u8', S.FIXED, values[jn]))
                    mx.append('<member name="a%d" type="u8"><dimension size="%sV"/></member>' % (j, jn))
                else:
                    members.append(S.M('m%d' % j, jn))
                    mx.append('<member name="m%d" type="%s"/>' % (j, jn))
            if not members:
                members.append(S.M('x', 'u8'))
                mx.append('<member name="x" type="u8"/>')
            defs.append(S.Struct(name, members))
            xml.append('<struct name="%s">%s</struct>' % (name, ''.join(mx)))
        else:
            arms, ax = [], []
            for idx, j in enumerate(deps[i]):
                jn = name_of(kinds, j)
                if kinds[j] == 'const':
                    arms.append(S.Arm(values[jn] + 100 * idx, 'u8', 'c%d' % j))
                    ax.append('<member name="c%d" type="u8" discriminatorValue="%s"/>' % (j, jn)
                              if idx == 0 else
                              '<member name="c%d" type="u8" discriminatorValue="%d"/>' % (j, values[jn] + 100 * idx))
                elif kinds[j] == 'enum' and (i + j) % 2 and idx == 0:
                    # the dependency is a discriminator that names the enumerator
                    arms.append(S.Arm(values[jn], 'u8', 'c%d' % j))
                    ax.append('<member name="c%d" type="u8" discriminatorValue="%sV"/>' % (j, jn))
                else:
                    arms.append(S.Arm(50 + idx, jn, 'm%d' % j))
                    ax.append('<member name="m%d" type="%s" discriminatorValue="%d"/>' % (j, jn, 50 + idx))
            if not arms:
                arms.append(S.Arm(1, 'u8', 'a'))
                ax.append('<member name="a" type="u8" discriminatorValue="1"/>')
            defs.append(S.Union(name, arms))
            xml.append('<union name="%s">%s</union>' % (name, ''.join(ax)))
    return defs, xml, depnames, values


def judge(job):
    graphs_, tier = job
    T.setup_repo()
    out = {'viol': [], 'graphs': 0, 'runs': 0, 'samples': [], 'nontrivial': 0, 'perm_classes': 0}
    seen = {}

    def viol(key, kinds, deps, order, xmltext, detail):
        seen[key] = seen.get(key, 0) + 1
        out['viol'].append((key, {'kinds': list(kinds), 'deps': [list(d) for d in deps], 'order': list(order),
                                  'xml': xmltext, 'detail': detail} if seen[key] <= 2 else None))

    try:
        for kinds, deps in graphs_:
            out['graphs'] += 1
            n = len(kinds)
            defs, xml, depnames, values = build(kinds, deps)
            if any(deps):
                out['nontrivial'] += 1
            ref = R.Ref(defs)
            names = [name_of(kinds, i) for i in range(n)]
            shape = '%s|%s' % ('-'.join(k[:2] for k in kinds), ';'.join(','.join(str(j) for j in d) for d in deps))
            done = set()
            for order in itertools.permutations(range(n)):
                # the isar parser regroups elements by kind: only the order inside each kind can matter
                cls = tuple(tuple(i for i in order if kinds[i] == k) for k in KINDS)
                if cls in done:
                    continue
                done.add(cls)
                out['perm_classes'] += 1
                text = '<xml>\n%s\n</xml>\n' % '\n'.join(xml[i] for i in order)
                res = T.compile_text(text, outs=('python',), mode='isar')
                out['runs'] += 1
                if not res.ok:
                    viol('prophyc-fails|%s|%s' % (res.exc_type, depkinds(kinds, deps)), kinds, deps, order, text,
                         str(res.exc)[:300])
                    continue
                try:
                    nodes = res.nodes['m']
                    pos = {}
                    dup = None
                    for p, node in enumerate(nodes):
                        if node.name in pos:
                            dup = node.name
                        pos[node.name] = p
                    if dup or sorted(pos) != sorted(names):
                        viol('output-not-a-permutation|%s' % depkinds(kinds, deps), kinds, deps, order, text,
                             'output lists %s' % [x.name for x in nodes])
                        continue
                    bad = [(names[i], d) for i in range(n) for d in depnames[i] if pos[d] > pos[names[i]]]
                    if bad:
                        i = names.index(bad[0][0])
                        j = names.index(bad[0][1])
                        viol('dependency-after-dependent|%s->%s|%s' % (kinds[i], kinds[j], edge_form(kinds, deps, i, j)),
                             kinds, deps, order, text,
                             '%s is listed before %s it depends on (output order %s)' % (bad[0][0], bad[0][1],
                                                                                         [x.name for x in nodes]))
                    try:
                        mod = T.import_generated(res.files['m.py'])
                    except Exception as e:      # noqa
                        if not bad:
                            viol('python-import-fails|%s|%s' % (type(e).__name__, depkinds(kinds, deps)), kinds, deps,
                                 order, text, str(e)[:300])
                        continue
                    byname = dict((x.name, x) for x in nodes)
                    for i in range(n):
                        if kinds[i] in ('struct', 'union'):
                            lay = ref.layout(names[i])
                            node = byname[names[i]]
                            got = (node.byte_size, node.alignment)
                            pcls = getattr(mod, names[i])
                            if got != (lay.size, lay.align) or (pcls._SIZE, pcls._ALIGNMENT) != (lay.size, lay.align):
                                if not bad:
                                    viol('layout-differs|%s' % depkinds(kinds, deps), kinds, deps, order, text,
                                         '%s: model %s python %s, expected %s' % (names[i], got, (pcls._SIZE, pcls._ALIGNMENT),
                                                                                   (lay.size, lay.align)))
                                break
                        elif kinds[i] == 'const':
                            if getattr(mod, names[i], None) != values[names[i]] and not bad:
                                viol('constant-differs|%s' % depkinds(kinds, deps), kinds, deps, order, text,
                                     '%s = %r, expected %r' % (names[i], getattr(mod, names[i], None), values[names[i]]))
                                break
                finally:
                    shutil.rmtree(res.outdir, ignore_errors=True)
            if len(out['samples']) < 2 and any(deps) and n >= 3:
                out['samples'].append({'definitions': xml, 'orders_tried': len(done)})
    except Exception:       # noqa
        out['harness_error'] = traceback.format_exc()
    return out


def depkinds(kinds, deps):
    s = set()
    for i, d in enumerate(deps):
        for j in d:
            s.add('%s->%s' % (kinds[i][:2], kinds[j][:2]))
    return ','.join(sorted(s))


def edge_form(kinds, deps, i, j):
    if kinds[i] in ('const', 'enum'):
        idx = list(deps[i]).index(j)
        if kinds[i] == 'const':
            return ['expr:add', 'expr:mul', 'expr:shiftLeft', 'expr:bitMaskOr'][(i + idx) % 4]
        return 'expr:add'
    if kinds[j] == 'const':
        return 'array-size' if kinds[i] == 'struct' else 'discriminator'
    return 'type'


# ---------------------------------------------------------------------------
# sack front-end: C++ headers, every declaration order C++ allows
# ---------------------------------------------------------------------------

SACK_KINDS = ('enum', 'struct', 'union')


def sack_graphs(n):
    for kinds in itertools.product(SACK_KINDS, repeat=n):
        choices = []
        for i in range(n):
            cand = [j for j in range(i)] if kinds[i] != 'enum' else []
            subsets = []
            for r in range(len(cand) + 1):
                subsets += list(itertools.combinations(cand, r))
            choices.append(subsets)
        for deps in itertools.product(*choices):
            yield kinds, deps


def sack_build(kinds, deps, variant):
    """-> (reference defs, {index: C++ text}, expected emitted names).  variant: plain | ns | twice"""
    n = len(kinds)
    used = set(j for d in deps for j in d)
    ns = variant == 'ns'

    def cname(j, ref_from_outside=True):
        base = '%s%d' % (PREFIX[kinds[j]], j)
        return ('ns::' + base) if (ns and j in used) else base

    def mname(j):
        base = '%s%d' % (PREFIX[kinds[j]], j)
        return ('ns__' + base) if (ns and j in used) else base
    defs, cpp = [], {}
    for i in range(n):
        base = '%s%d' % (PREFIX[kinds[i]], i)
        body = None
        if kinds[i] == 'enum':
            defs.append(S.Enum(mname(i), [(base + 'V', i + 1)]))
            body = 'enum %s { %sV = %d };' % (base, base, i + 1)
        elif kinds[i] == 'struct':
            members, lines = [], []
            for j in deps[i]:
                members.append(S.M('m%d' % j, mname(j)))
                lines.append('%s m%d;' % (cname(j), j))
                if variant == 'twice':
                    members.append(S.M('n%d' % j, mname(j), S.FIXED, 2))
                    lines.append('%s n%d[2];' % (cname(j), j))
            members.append(S.M('x', 'u8'))
            lines.append('uint8_t x;')
            defs.append(S.Struct(mname(i), members))
            body = 'struct %s { %s };' % (base, ' '.join(lines))
        else:
            arms, lines = [S.Arm(0, 'u8', 'a')], ['uint8_t a;']
            for k, j in enumerate(deps[i]):
                arms.append(S.Arm(k + 1, mname(j), 'm%d' % j))
                lines.append('%s m%d;' % (cname(j), j))
            defs.append(S.Union(mname(i), arms))
            body = 'union %s { %s };' % (base, ' '.join(lines))
        if ns and i in used:
            body = 'namespace ns { %s }' % body
        cpp[i] = body
    # sack emits the structs and enums declared at the top level of the header and whatever they reach
    roots = [i for i in range(n) if kinds[i] != 'union' and not (ns and i in used)]
    reach = set()

    def visit(i):
        if i not in reach:
            reach.add(i)
            for j in deps[i]:
                visit(j)
    for i in roots:
        visit(i)
    emitted = [mname(i) for i in sorted(reach)]
    return defs, cpp, emitted


def judge_sack(job):
    graphs_, tier = job
    T.setup_repo()
    out = {'viol': [], 'graphs': 0, 'runs': 0}
    seen = {}
    try:
        for kinds, deps in graphs_:
            out['graphs'] += 1
            n = len(kinds)
            for variant in ('plain', 'ns', 'twice'):
                if variant != 'plain' and not any(deps):
                    continue
                defs, cpp, emitted = sack_build(kinds, deps, variant)
                ref = R.Ref(defs)
                for order in itertools.permutations(range(n)):
                    # C++ needs a type declared before it is used
                    if any(order.index(j) > order.index(i) for i in range(n) for j in deps[i]):
                        continue
                    text = '#include <stdint.h>\n' + '\n'.join(cpp[i] for i in order) + '\n'
                    res = T.compile_text(text, outs=('python',), mode='sack', suffix='hpp')
                    out['runs'] += 1

                    def viol(key, detail):
                        seen[key] = seen.get(key, 0) + 1
                        out['viol'].append((key, {'sack': True, 'header': text, 'detail': detail} if seen[key] <= 2 else None))
                    try:
                        if not res.ok:
                            viol('sack|prophyc-fails|%s|%s' % (res.exc_type, variant), str(res.exc)[:300])
                            continue
                        names = [x.name for x in res.nodes['m']]
                        if sorted(names) != sorted(emitted):
                            viol('sack|output-not-the-definitions|%s' % variant, 'output lists %s, expected each of %s once' % (
                                names, emitted))
                            continue
                        pos = dict((nm, p) for p, nm in enumerate(names))
                        byname = dict((d.name, d) for d in defs)
                        bad = [(nm, dep) for nm in names for dep in S.deps_of(byname[nm]) if pos[dep] > pos[nm]]
                        if bad:
                            viol('sack|dependency-after-dependent|%s' % variant, '%s before %s in %s' % (bad[0][0], bad[0][1], names))
                            continue
                        try:
                            mod = T.import_generated(res.files['m.py'])
                        except Exception as e:      # noqa
                            viol('sack|python-import-fails|%s|%s' % (type(e).__name__, variant), str(e)[:300])
                            continue
                        nodes = dict((x.name, x) for x in res.nodes['m'])
                        for d in defs:
                            if isinstance(d, (S.Struct, S.Union)) and d.name in nodes:
                                lay = ref.layout(d.name)
                                if (nodes[d.name].byte_size, nodes[d.name].alignment) != (lay.size, lay.align):
                                    viol('sack|layout-differs|%s' % variant, '%s: model %s, rules %s' % (
                                        d.name, (nodes[d.name].byte_size, nodes[d.name].alignment), (lay.size, lay.align)))
                                    break
                    finally:
                        if res.outdir:
                            shutil.rmtree(res.outdir, ignore_errors=True)
    except Exception:       # noqa
        out['harness_error'] = traceback.format_exc()
    return out


def select(tier, seed):
    gs = []
    for n in (1, 2, 3):
        gs += list(graphs(n))
    g4 = list(graphs(4))
    if tier == 'thorough':
        return gs + g4, len(g4), len(g4)
    step = 12
    return gs + g4[seed % step::step], len(g4[seed % step::step]), len(g4)


# ---------------------------------------------------------------------------
# a definition that an included file delivers as well: the local one is what its users get, wherever it stands
# ---------------------------------------------------------------------------

SHADOW_INC = ('<x><struct name="Hdr"><member name="a" type="u16"/></struct><constant name="KS" value="2"/>'
              '<enum name="ES"><enum-member name="ES_A" value="1"/></enum></x>')
SHADOW_DEFS = {
    'Msg': '<struct name="Msg"><member name="h" type="Hdr"/><member name="tail" type="u8"/></struct>',
    'Hdr': '<struct name="Hdr"><member name="a" type="u32"/><member name="b" type="u32"/></struct>',
    'Arr': '<struct name="Arr"><member name="x" type="u8"><dimension size="KS"/></member></struct>',
    'KS': '<constant name="KS" value="5"/>',
    'THdr': '<typedef name="THdr" type="Hdr"/>',
}
SHADOW_MAIN = '<x xmlns:xi="http://www.xyz.com/1984/XInclude"><xi:include href="%s"/>%s</x>'
SHADOW_SETS = (('Msg', 'Hdr', 'Arr'), ('Arr', 'KS', 'Msg'), ('Msg', 'Hdr', 'Arr', 'KS'), ('THdr', 'Hdr', 'Msg'))
SHADOW_INC_NAMES = ('inc.xml', 'Hdr.xml')        # the second: an included file named like a definition of the including file


def judge_shadow(job):
    import os
    T.setup_repo()
    out = {'viol': [], 'runs': 0}
    try:
        for names, incname in itertools.product(SHADOW_SETS, SHADOW_INC_NAMES):
            sizes = {}
            for order in itertools.permutations(names):
                d = T.fresh_dir('c15s')
                try:
                    with open(os.path.join(d, incname), 'w') as f:
                        f.write(SHADOW_INC)
                    with open(os.path.join(d, 'main.xml'), 'w') as f:
                        f.write(SHADOW_MAIN % (incname, ''.join(SHADOW_DEFS[n] for n in order)))
                    res = T.run_prophyc(['--isar', '--python_out', d, os.path.join(d, incname), os.path.join(d, 'main.xml')])
                    out['runs'] += 1
                    art = {'shadow': True, 'order': list(order), 'include': incname, 'detail': ''}
                    if not res.ok:
                        out['viol'].append(('include-shadow|prophyc-fails|%s' % res.exc_type, dict(art, detail=str(res.exc)[:300])))
                        continue
                    text = open(os.path.join(d, 'main.py')).read()
                    pos = dict((n, text.find({'KS': '\nKS = ', 'THdr': '\nTHdr = '}.get(n, 'class %s(' % n))) for n in order)
                    for user, dep in (('Msg', 'Hdr'), ('Arr', 'KS'), ('THdr', 'Hdr')):
                        if user in pos and dep in pos and not 0 <= pos[dep] < pos[user]:
                            out['viol'].append(('include-shadow|dependency-after-dependent|%s->%s' % (user, dep),
                                                dict(art, detail='%s stands before the local %s it uses:\n%s' % (user, dep, text[-900:]))))
                    try:
                        mod = T.import_generated(os.path.join(d, 'main.py'))
                        got = tuple((n, len(getattr(mod, n)().encode('<'))) for n in ('Msg', 'Arr') if n in names)
                    except Exception as e:      # noqa
                        out['viol'].append(('include-shadow|module-import-fails|%s' % type(e).__name__, dict(art, detail=str(e)[:300])))
                        continue
                    sizes.setdefault(got, order)
                finally:
                    shutil.rmtree(d, ignore_errors=True)
            if len(sizes) > 1:
                out['viol'].append(('include-shadow|layout-depends-on-order', {'shadow': True, 'order': [list(o) for o in sizes.values()],
                                                                              'detail': 'encoded sizes by order: %r' % (sizes,)}))
        # the same name defined twice in one file (isar lists both): each body may only name what stands above it
        import re
        dup = {'cfg_old': '<struct name="SCfg"><member name="id" type="u32"/></struct>',
               'cfg_new': '<struct name="SCfg"><member name="id" type="u32"/><member name="ext" type="SExt"/></struct>',
               'ext': '<struct name="SExt"><member name="x" type="u16"/></struct>',
               'user': '<struct name="SUser"><member name="cfg" type="SCfg"/></struct>'}
        for order in itertools.permutations(sorted(dup)):
            res = T.compile_text('<x>%s</x>' % ''.join(dup[n] for n in order), outs=('python',), mode='isar')
            out['runs'] += 1
            art = {'shadow': True, 'order': list(order), 'detail': ''}
            try:
                if not res.ok:
                    out['viol'].append(('duplicate-name|prophyc-fails|%s' % res.exc_type, dict(art, detail=str(res.exc)[:300])))
                    continue
                text = open(res.files['m.py']).read()
                defined = set()
                for block in re.split(r'\n(?=class )', text):
                    m = re.match(r'class (\w+)\(', block)
                    if not m:
                        continue
                    for used in re.findall(r"\('\w+', (\w+)\)", block):
                        if used not in defined:
                            out['viol'].append(('duplicate-name|dependency-after-dependent', dict(
                                art, detail='%s names %s before its definition:\n%s' % (m.group(1), used, text[-700:]))))
                    defined.add(m.group(1))
                if text.count('class SCfg(') != 2 or text.count('class SExt(') != 1 or text.count('class SUser(') != 1:
                    out['viol'].append(('duplicate-name|output-incomplete', dict(art, detail=text[-700:])))
            finally:
                if res.outdir:
                    shutil.rmtree(res.outdir, ignore_errors=True)
    except Exception:       # noqa
        out['harness_error'] = traceback.format_exc()
    return out


def run(ctx):
    for res in ctx.pmap(judge_shadow, [None]):
        if 'harness_error' in res:
            raise HarnessError(res['harness_error'])
        ctx.cov['transitions'] += res['runs']
        ctx.cov['evaluations'] += res['runs']
        ctx.cov['traces_validated_against_impl'] += res['runs']
        ctx.cov['include_shadow_runs'] = res['runs']
        for key, art in res['viol']:
            ctx.violation_counts[key] = ctx.violation_counts.get(key, 0) + 1
            if len(ctx.violations.setdefault(key, [])) < 3:
                ctx.violations[key].append(art)
    gs, n4, total4 = select(ctx.tier, ctx.seed)
    if n4 < total4:
        ctx.cap('4-definition sets: %d of %d explored in the quick tier (all sets of <= 3 definitions are complete)' % (n4, total4))
    chunk = 40
    jobs = [(gs[k:k + chunk], ctx.tier) for k in range(0, len(gs), chunk)]
    for res in ctx.pmap(judge, jobs):
        if 'harness_error' in res:
            raise HarnessError(res['harness_error'])
        ctx.cov['states'] += res['graphs']
        ctx.cov['transitions'] += res['runs']
        ctx.cov['traces_validated_against_impl'] += res['runs']
        ctx.cov['evaluations'] += res['runs']
        ctx.cov['distinct_nontrivial'] += res['nontrivial']
        for s in res['samples']:
            ctx.sample(s)
        for key, art in res['viol']:
            ctx.violation_counts[key] = ctx.violation_counts.get(key, 0) + 1
            if art is not None and len(ctx.violations.setdefault(key, [])) < 3:
                ctx.violations[key].append(art)
    # sack: needs libclang; when it is missing the front-end itself refuses and the sub-check is skipped (recorded)
    from prophyc.parsers.sack import SackParser
    if SackParser.check():
        sg = []
        for n in ((1, 2, 3) if ctx.tier == 'quick' else (1, 2, 3, 4)):
            sg += list(sack_graphs(n))
        for res in ctx.pmap(judge_sack, [(sg[k:k + 12], ctx.tier) for k in range(0, len(sg), 12)]):
            if 'harness_error' in res:
                raise HarnessError(res['harness_error'])
            ctx.cov['states'] += res['graphs']
            ctx.cov['transitions'] += res['runs']
            ctx.cov['traces_validated_against_impl'] += res['runs']
            ctx.cov['evaluations'] += res['runs']
            ctx.cov['sack_runs'] = ctx.cov.get('sack_runs', 0) + res['runs']
            for key, art in res['viol']:
                ctx.violation_counts[key] = ctx.violation_counts.get(key, 0) + 1
                if art is not None and len(ctx.violations.setdefault(key, [])) < 3:
                    ctx.violations[key].append(art)
    else:
        ctx.cap('sack sub-check skipped: libclang not available')
    for key in [k for k, v in ctx.violations.items() if not v]:
        del ctx.violations[key]
    ctx.cov['rule'] = ('states = definition sets: every assignment of kinds {constant, enum, typedef, struct, union} to n <= 4 '
                       'nodes and every acyclic set of expressible dependencies between them (type references, array-size '
                       'constants, enumerator / constant references in expressions incl. A*2 forms, discriminators); '
                       'transitions = prophyc --isar runs, one per input permutation class (permutations that differ only '
                       'across element kinds are regrouped by the parser and run once). Checked: output is a permutation of '
                       'the definitions, every dependency precedes its dependent, the Python module imports, layouts and '
                       'constants equal the reference for every order. non-trivial = set with at least one dependency. '
                       'sack: every set of <= 3 (4) enums / structs / unions as a C++ header (plain, dependencies in a namespace, '
                       'every dependency used by two fields) in every declaration order C++ allows. Include shadowing: a file that includes '
                       'another and redefines a struct / constant of it, every order of its definitions: the local definition '
                       'precedes its users and the layouts do not depend on the order; one name defined twice in one file, every order.')


def replay(art):
    if art.get('shadow'):
        out = judge_shadow(None)
        if out['viol']:
            return 'include shadowing: %s: %s' % (out['viol'][0][0], out['viol'][0][1]['detail'][:600])
        return None
    if art.get('sack'):
        res = T.compile_text(art['header'], outs=('python',), mode='sack', suffix='hpp')
        if not res.ok:
            return 'prophyc --sack fails: %s' % res.exc
        names = [x.name for x in res.nodes['m']]
        if len(names) != len(set(names)):
            return 'header:\n%s\noutput lists %s' % (art['header'], names)
        try:
            T.import_generated(res.files['m.py'])
        except Exception as e:      # noqa
            return 'header:\n%s\ngenerated module does not import: %r' % (art['header'], e)
        return 'header:\n%s\n%s' % (art['header'], art['detail']) if 'layout' in art['detail'] or 'before' in art['detail'] else None
    res = T.compile_text(art['xml'], outs=('python',), mode='isar')
    if not res.ok:
        return 'prophyc fails: %s' % res.exc
    kinds, deps = tuple(art['kinds']), tuple(tuple(d) for d in art['deps'])
    defs, xml, depnames, values = build(kinds, deps)
    names = [name_of(kinds, i) for i in range(len(kinds))]
    nodes = res.nodes['m']
    pos = dict((x.name, p) for p, x in enumerate(nodes))
    problems = []
    if sorted(pos) != sorted(names) or len(nodes) != len(names):
        problems.append('output lists %s' % [x.name for x in nodes])
    else:
        for i, dn in enumerate(depnames):
            for d in dn:
                if pos[d] > pos[names[i]]:
                    problems.append('%s listed before its dependency %s' % (names[i], d))
    try:
        mod = T.import_generated(res.files['m.py'])
        ref = R.Ref(defs)
        byname = dict((x.name, x) for x in nodes)
        for i, k in enumerate(kinds):
            if k in ('struct', 'union') and names[i] in byname:
                lay = ref.layout(names[i])
                if (byname[names[i]].byte_size, byname[names[i]].alignment) != (lay.size, lay.align):
                    problems.append('%s layout %s, expected %s' % (names[i], (byname[names[i]].byte_size,
                                                                             byname[names[i]].alignment), tuple(lay)[:2]))
            if k == 'const' and getattr(mod, names[i], None) != values[names[i]]:
                problems.append('%s = %r expected %r' % (names[i], getattr(mod, names[i], None), values[names[i]]))
    except Exception as e:      # noqa
        problems.append('python import fails: %r' % e)
    if problems:
        return '%s\n%s' % (art['xml'], '\n'.join(problems))
    return None
