"""C18 Text rendering is the same in Python and C++ and is not order-sensitive."""
from .. import cppfull, textjudge


def run(ctx):
    textjudge.run_text(ctx)
    rule = ctx.cov['rule']
    cppfull.run_cpp(ctx, ['C18'], states=list(textjudge.text_states(ctx.tier)), vmode='text', ops=('build',))
    # the general universe as well: order effects between arbitrary members
    cppfull.run_cpp(ctx, ['C18'], vcap=6 if ctx.tier == 'quick' else 24, ops=('build',))
    ctx.assumptions += ['floating-point members are excluded, bytes values avoid quote characters, as the property states']


def replay(art):
    if art.get('side') == 'cpp':
        return cppfull.replay(art, 'C18')
    return textjudge.replay(art)
