"""C10 Python message API keeps every reachable message state valid."""
import ast

from .. import ahe, apimodel as A
from ..run import HarnessError


def depth_for(tier, name):
    if tier == 'quick':
        return 3
    return 5 if name in ('scalars', 'wide', 'bytes', 'bytes_greedy', 'optional', 'union', 'fixed') else 4


def run(ctx):
    names = sorted(ahe.zoo())
    jobs = [(n, depth_for(ctx.tier, n), ctx.tier) for n in names]
    depths = {}
    for res in ctx.pmap(ahe.explore_type, jobs):
        if 'harness_error' in res:
            raise HarnessError(res['harness_error'])
        ctx.cov['states'] += res['states']
        ctx.cov['transitions'] += res['transitions']
        ctx.cov['traces_validated_against_impl'] += res['executions']
        ctx.cov['evaluations'] += res['executions']
        depths[res['name']] = {'depth': res['depth_done'], 'states': res['states'], 'transitions': res['transitions']}
        for k, n in res['outcomes'].items():
            ctx.outcome(k, n)
        for s in res['samples']:
            ctx.sample(s, limit=8)
        for key, art in res['viol']:
            ctx.violation_counts[key] = ctx.violation_counts.get(key, 0) + 1
            if art is not None and len(ctx.violations.setdefault(key, [])) < 3:
                ctx.violations[key].append(art)
    for key in [k for k, v in ctx.violations.items() if not v]:
        del ctx.violations[key]
    ctx.cov['per_message'] = depths
    ctx.cov['distinct_nontrivial'] = ctx.cov['states']
    ctx.cov['rule'] = ('states = distinct (reference-model state, stored keys and values) pairs reached by BFS over the operation '
                       'alphabet on each zoo message; transitions = (state, operation) pairs, each executed on a fresh real '
                       'object by replaying the history, sparse, dense and with the operated-on object fetched before the '
                       'message is read again (held handle); every transition compares outcome class, '
                       'observation, encode (bytes vs reference encoder), decode round trip and str() with the model. '
                       'non-trivial = every state beyond the initial one is reached by at least one accepted operation.')
    if len(ctx.cov['outcomes']) < 3:
        raise HarnessError('vacuous: fewer than 3 distinct operation outcomes observed')
    ctx.assumptions += ['wrongly typed indices and operations a field kind does not offer are outside the alphabet',
                        'setting an already present optional composite to True yields a fresh default value']


def replay(art):
    from .. import schema as S, refmodel as R, toolchain as T
    defs, top = ahe.zoo()[art['zoo']]
    res = T.compile_text(S.render_prophy(defs), outs=('python',))
    mod = T.import_generated(res.files['m.py'])
    ref = R.Ref(defs)
    model = A.ApiModel(ref)
    impl = ahe.Impl(ref, mod, top, model)
    env = {'ItArg': A.ItArg}
    hist = eval(art['hist_ops'], env)
    op = eval(art['op_raw'], env) if art.get('op_raw') and art['op_raw'] != 'None' else None
    mstate = model.default(top)
    msg = impl.fresh()
    log = []
    for o in hist:
        out_m, mstate = model.apply(top, mstate, o)
        log.append('%s -> %s' % (A.op_text(o), impl.execute(msg, o)))
        if art.get('mode') == 'dense':
            try:
                T.observe(ref, top, msg)
            except Exception:       # noqa
                pass
    problems = []
    if op is not None:
        out_m, mstate = model.apply(top, mstate, op)
        got = impl.execute(msg, op, held=(art.get('mode') == 'held'))
        log.append('%s%s -> %s (model: %s)' % (A.op_text(op), ' [on a handle fetched before str(m), m.encode()]'
                                               if art.get('mode') == 'held' else '', got, out_m))
        if got not in ahe.ACCEPT[out_m]:
            problems.append('outcome %s, model %s' % (got, out_m))
    tree = model.to_tree(top, mstate)
    try:
        obs = T.observe(ref, top, msg)
        if obs != tree:
            problems.append('observed %r, model %r' % (obs, tree))
    except Exception as e:      # noqa
        problems.append('observe raises %r' % e)
    import prophy
    try:
        data = msg.encode('<')
        if model.encodable(top, mstate):
            problems.append('encode should refuse')
        elif data != ref.encode(top, tree, '<')[0]:
            problems.append('encode gives %s, expected %s' % (data.hex(), ref.encode(top, tree, '<')[0].hex()))
        else:
            back = getattr(mod, top)()
            spans = ref.encode(top, tree, '<')[1]
            if not (ref.layout(top).kind == R.K_UNLIMITED and spans and spans[-1].role == 'pad:tail'):
                try:
                    back.decode(data, '<')
                    if T.observe(ref, top, back) != tree:
                        problems.append('round trip differs')
                except Exception as e:      # noqa
                    problems.append('round trip raises %r' % e)
            try:
                if str(msg) != ref.render(top, tree) and 'float' not in art['schema'] and 'double' not in art['schema']:
                    problems.append('str() differs: %r' % str(msg))
            except Exception as e:      # noqa
                problems.append('str raises %r' % e)
    except prophy.ProphyError as e:
        if not model.encodable(top, mstate):
            problems.append('encode raises ProphyError %s' % e)
    except Exception as e:      # noqa
        problems.append('encode raises %r' % e)
    if problems:
        return 'schema:\n%s\n%s\n%s' % (art['schema'], '\n'.join(log), '\n'.join(problems))
    return None
