"""C07 C++ full decode is memory-safe and exact on arbitrary bytes."""
import shutil
import traceback

from .. import schema as S, refmodel as R, universe as U, values as V, toolchain as T, sse, faults as F, pyjudge
from .. import cppfull, cppdriver as D
from ..run import HarnessError

ENDIANS = (('little', '<'), ('big', '>'))


def alloc_bound(n):
    return 4096 + 512 * n


def judge_result(r, data):
    """None or (kind, text) for one driver result on input `data`."""
    if r is None:
        return ('no-result', 'driver produced no result')
    if 'crash' in r:
        return ('crash|' + D.crash_frame(r['crash']), r['crash'][-1200:])
    if 'ubsan' in r:
        return ('ub|' + D.crash_frame(r['ubsan']), r['ubsan'])
    if 'exc' in r:
        return ('alloc|' + r['exc'], 'decode asked for memory beyond the cap (%s bytes counted)' % r.get('alloc'))
    alloc = int(r.get('alloc', '0'))
    if alloc > alloc_bound(len(data)):
        return ('alloc|disproportionate', 'decode requested %d bytes for a %d byte input' % (alloc, len(data)))
    if r.get('ok') == '1':
        gbs = r.get('gbs', '')
        if gbs.startswith('ABSURD'):
            return ('accepted-but-absurd-size', 'accepted input, get_byte_size() = %s' % gbs)
        pn = int(r.get('pn', '-1'))
        if pn != len(data):
            return ('accepted-reencodes-to-other-length|d=%+d' % (pn - len(data)),
                    'decode returned true for %d bytes, re-encoding writes %d' % (len(data), pn))
    return None


reuse_differs = cppfull.reuse_differs


def judge_batch(job):
    states, tier, mode = job
    T.setup_repo()
    out = {'viol': [], 'states': 0, 'inputs': 0, 'accepted': 0, 'outcomes': {}, 'samples': [], 'known_site_states': 0, 'reuse': 0}
    try:
        accepted = [st for st in states if cppfull.full_generator_accepts(st)]
        prepared, rejected = cppfull.prepare_cpp(accepted)
        if rejected:
            out['harness_error'] = 'fault universe state rejected by the C++ build: %r' % (rejected[0][:3],)
            return out
        seen = {}
        for prep in prepared:
            try:
                ref = prep.ref
                vg = V.Values(ref, tier)
                cases, meta, reuse_meta = [], {}, {}
                for si, (st, top) in enumerate(zip(prep.states, prep.tops)):
                    out['states'] += 1
                    lay = ref.layout(top)
                    site = cppfull.known_site(ref, top)
                    if site:
                        out['known_site_states'] += 1
                    inputs = []
                    if mode == 'short':
                        for b in F.short_strings(5 if tier == 'quick' else 7):
                            inputs.append(('short', b, '<'))
                    else:
                        vals, _ = vg.enumerate(top, 4 if tier == 'quick' else 10)
                        for v in vals[:4 if tier == 'quick' else 10]:
                            for ename, e in ENDIANS:
                                data, spans = ref.encode(top, v, e)
                                inputs.append(('valid', data, e))
                                for label, d in F.single_faults(data, spans, e, tier, lay.align):
                                    inputs.append((label, d, e))
                                if tier == 'thorough':
                                    for label, d in F.double_faults(data, spans, e, lay.align, cap=150):
                                        inputs.append((label, d, e))
                    done = set()
                    fresh_cid = {}
                    for k, (label, data, e) in enumerate(inputs):
                        if (data, e) in done:
                            continue
                        done.add((data, e))
                        cid = '%d.%d' % (si, k)
                        fresh_cid[(data, e)] = cid
                        ename = 'little' if e == '<' else 'big'
                        cases.append((cid, top, ename, 'dec', data))
                        meta[cid] = (st, top, label, data, e, site)
                    # object reuse: every valid input decoded into an object that has already received another valid
                    # input or a faulted one must give what a fresh object gives
                    if mode != 'short':
                        k = 0
                        for ename, e in ENDIANS:
                            valids = [d for (label, d, e2) in inputs if label == 'valid' and e2 == e]
                            faulted = [d for (label, d, e2) in inputs if label != 'valid' and e2 == e]
                            step = max(1, len(faulted) // 6)
                            for target in valids:
                                for prime in valids + faulted[::step][:6]:
                                    if prime == target:
                                        continue
                                    cid = '%d.r%d' % (si, k)
                                    k += 1
                                    cases.append((cid, top, ename, 'reuse', (prime, target)))
                                    reuse_meta[cid] = (st, top, prime, target, e, site, fresh_cid[(target, e)])
                results = D.run_driver(prep.exe, cases, timeout=600)
                out['inputs'] += len(cases)
                for cid, (st, top, label, data, e, site) in meta.items():
                    r = results.get(cid)
                    why = judge_result(r, data)
                    o = 'crash' if r is not None and 'crash' in r else ('exc' if r is not None and 'exc' in r else (
                        'true' if r is not None and r.get('ok') == '1' else 'false'))
                    out['outcomes'][o] = out['outcomes'].get(o, 0) + 1
                    if o == 'true':
                        out['accepted'] += 1
                    if why:
                        if site:
                            key = 'cpp|site=%s' % site
                        elif why[0].startswith('ub|'):
                            key = 'cpp|%s' % why[0]
                        else:
                            key = 'cpp|%s|%s|%s' % (why[0], label.split('@')[0].split('+')[0].split('=')[0],
                                                    pyjudge._shape_key(ref, top, st))
                        seen[key] = seen.get(key, 0) + 1
                        art = None
                        if seen[key] <= 2:
                            text, sdefs = sse.state_text(st, 'X')
                            art = {'schema': text, 'defs': S.defs_to_json(sdefs), 'top': 'X', 'state': st.key, 'endian': e,
                                   'input': data.hex(), 'fault': label, 'detail': '%s: %s' % why}
                        out['viol'].append((key, art))
                    elif len(out['samples']) < 2 and o == 'false' and 'counter' in label:
                        out['samples'].append({'state': st.key, 'fault': label, 'input': data.hex(), 'result': 'false',
                                               'alloc': r.get('alloc')})
                for cid, (st, top, prime, target, e, site, fcid) in reuse_meta.items():
                    r, rf = results.get(cid) or {}, results.get(fcid) or {}
                    out['reuse'] += 1
                    why = reuse_differs(r, rf)
                    if why:
                        key = ('cpp|site=%s' % site) if site else 'cpp|reuse|%s|%s' % (why[0], pyjudge._shape_key(ref, top, st))
                        seen[key] = seen.get(key, 0) + 1
                        art = None
                        if seen[key] <= 2:
                            text, sdefs = sse.state_text(st, 'X')
                            art = {'schema': text, 'defs': S.defs_to_json(sdefs), 'top': 'X', 'state': st.key, 'endian': e,
                                   'input': target.hex(), 'prime': prime.hex(), 'fault': 'reuse', 'detail': '%s: %s' % why}
                        out['viol'].append((key, art))
            finally:
                shutil.rmtree(prep.outdir, ignore_errors=True)
    except Exception:       # noqa
        out['harness_error'] = traceback.format_exc()
    return out


def run(ctx):
    states = F.fault_universe(ctx.tier, ctx.seed)
    jobs = [(b, ctx.tier, 'faults') for b in U.batches(states, 64)]
    jobs += [(F.short_string_schemas(), ctx.tier, 'short')]
    nstates = 0
    for res in ctx.pmap(judge_batch, jobs):
        if 'harness_error' in res:
            raise HarnessError(res['harness_error'])
        nstates += res['states']
        ctx.cov['evaluations'] += res['inputs']
        ctx.cov['reuse_pairs'] = ctx.cov.get('reuse_pairs', 0) + res['reuse']
        ctx.cov['distinct_nontrivial'] += res['accepted']
        ctx.cov['states'] += res['inputs']
        ctx.cov['transitions'] += res['inputs']
        ctx.cov['traces_validated_against_impl'] += res['inputs']
        ctx.cov['known_site_states'] = ctx.cov.get('known_site_states', 0) + res['known_site_states']
        for k, n in res['outcomes'].items():
            ctx.outcome(k, n)
        for s in res['samples']:
            ctx.sample(s)
        for key, art in res['viol']:
            ctx.violation_counts[key] = ctx.violation_counts.get(key, 0) + 1
            if art is not None and len(ctx.violations.setdefault(key, [])) < 3:
                ctx.violations[key].append(art)
    for key in [k for k, v in ctx.violations.items() if not v]:
        del ctx.violations[key]
    ctx.cov['schema_states'] = nstates
    ctx.cov['rule'] = ('inputs = the fault menu of C06 (every prefix, extensions, every control word x boundary values, byte '
                       'substitutions%s) over the fault universe in little and big endian, plus all strings of length <= %d over '
                       '{00,01,02,03,FF} for the small schemas, each decoded by the ASan+UBSan driver from an exact-size heap '
                       'buffer; every valid input is also decoded into an object that already received each other valid input or one of '
                       'six faulted ones (reuse_pairs) and must give what a fresh object gives. distinct_nontrivial = inputs decode accepted (re-encode length checked). A sanitizer abort, an '
                       'allocation beyond 4 KiB + 512 x input length, or an accepted input that re-encodes to another length is '
                       'a violation.' % (', pairs of faults' if ctx.tier == 'thorough' else '', 5 if ctx.tier == 'quick' else 7))
    if len(ctx.cov['outcomes']) < 2:
        raise HarnessError('vacuous: a single decode outcome over all faults')
    ctx.assumptions += ['x86-64, clang++-14 -O0, ASan+UBSan; native order equals little on this host and is covered by it']


def replay(art):
    defs = S.defs_from_json(art['defs'])
    ref = R.Ref(defs)
    res = T.compile_text(art['schema'], outs=('cpp_full',))
    if not res.ok:
        return 'prophyc rejects: %s' % res.exc
    try:
        try:
            exe = D.build_driver(res.outdir, ref, [art['top']])
        except D.BuildFailure as e:
            return 'generated C++ does not compile:\n%s' % e.text[:1200]
        data = bytes.fromhex(art['input'])
        ename = 'little' if art['endian'] == '<' else 'big'
        if art.get('prime') is not None:
            results = D.run_driver(exe, [('0', art['top'], ename, 'dec', data),
                                         ('1', art['top'], ename, 'reuse', (bytes.fromhex(art['prime']), data))])
            why = reuse_differs(results.get('1') or {}, results.get('0') or {})
            if why:
                return 'schema:\n%s\nfirst input %s, then %s (%s)\n%s: %s' % (art['schema'], art['prime'], art['input'], ename,
                                                                              why[0], why[1])
            return None
        results = D.run_driver(exe, [('0', art['top'], ename, 'dec', data)])
        why = judge_result(results.get('0'), data)
        if why:
            return 'schema:\n%s\ninput %s (%s, fault %s)\n%s: %s' % (art['schema'], art['input'], ename, art['fault'],
                                                                      why[0], why[1])
        return None
    finally:
        shutil.rmtree(res.outdir, ignore_errors=True)
