"""C04 prophyc's computed layout equals the wire rules and both runtimes' statics."""
import itertools
import shutil
import traceback

from .. import schema as S, refmodel as R, universe as U, values as V, toolchain as T, sse
from ..run import HarnessError


def model_kind(node):
    return node.kind


def expected_member_paddings(ref, sname):
    """For every wire field of struct sname: ('pad', n) = n static bytes follow before the
    next field / the end; ('align', A) = align to A (dynamic position)."""
    fields = ref.fields(sname)
    lay = ref.layout(sname)
    blocks = ref.blocks(fields)
    out = {}
    has_dyn = any(f.dyn or f.unl for f in fields)
    for bi, block in enumerate(blocks):
        off = 0
        offs = []
        for f in block:
            off = R.roundup(off, f.align)
            offs.append(off)
            off += f.ssize
        for k, f in enumerate(block):
            end = offs[k] + f.ssize
            if k + 1 < len(block):
                out[f.name] = ('pad', offs[k + 1] - end)
            elif bi + 1 < len(blocks):
                nxt = max(g.align for g in blocks[bi + 1])
                out[f.name] = ('align', nxt, f, end, max(g.align for g in block))
            else:
                if has_dyn:
                    balign = max(g.align for g in block) if bi else lay.align
                    out[f.name] = ('align', lay.align, f, end, balign)
                else:
                    out[f.name] = ('pad', lay.size - end)
    return out


def pow2_of(n, cap):
    a = 1
    while a < cap and n % (a * 2) == 0:
        a *= 2
    return a


def guaranteed_alignment(ref, f, end_in_block=None, block_align=None):
    """Alignment the end of the last field of a block is known to have."""
    if f.kind == 'bytes' and f.mode != 'fixed' and f.mode != 'limited':
        return 1
    if f.kind in ('array', 'comp') and (f.dyn or f.unl):
        return ref.layout(f.type).align
    # static field: the block starts at a multiple of block_align
    return pow2_of(end_in_block, block_align) if end_in_block else block_align


def check_type(ref, name, node, pycls, viol, art):
    lay = ref.layout(name)
    d = ref.resolve(name)
    what = 'union' if isinstance(d, S.Union) else 'struct'
    # ---- prophyc model
    if node is not None:
        if node.alignment != lay.align:
            viol('model|alignment|%s|exp=%d|got=%s|%s' % (what, lay.align, node.alignment, shape(ref, name)),
                 art('model alignment %s, documented rules give %d' % (node.alignment, lay.align)))
        if node.kind != lay.kind:
            viol('model|kind|%s|exp=%s|got=%s|%s' % (what, R.KIND_NAMES[lay.kind], R.KIND_NAMES.get(node.kind, node.kind),
                                                     shape(ref, name)),
                 art('model stiffness %s, documented rules give %s' % (node.kind, R.KIND_NAMES[lay.kind])))
        if node.byte_size != lay.size:
            viol('model|size|%s|kind=%s|d=%+d|%s' % (what, R.KIND_NAMES[lay.kind], (node.byte_size or 0) - lay.size,
                                                   shape(ref, name)),
                 art('model byte_size %s, documented rules give %d' % (node.byte_size, lay.size)))
        if isinstance(d, S.Struct):
            exp = expected_member_paddings(ref, name)
            for m in node.members:
                e = exp.get(m.name)
                if e is None:
                    continue
                if e[0] == 'pad':
                    if m.padding != e[1]:
                        viol('model|padding|static|exp=%d|got=%s|%s' % (e[1], m.padding, shape(ref, name)),
                             art('member %s padding %s, rules give %d' % (m.name, m.padding, e[1])))
                else:
                    need = e[1]
                    have = guaranteed_alignment(ref, e[2], e[3], e[4])
                    if m.padding is not None and m.padding < 0:
                        ok = (-m.padding == need) or (need <= have and -m.padding <= have)
                    else:
                        ok = need <= have and (m.padding or 0) == 0
                    if not ok:
                        viol('model|padding|dynamic|need=%d|have=%d|got=%s|%s' % (need, have, m.padding, shape(ref, name)),
                             art('member %s (dynamic) padding marker %s, rules need alignment %d' % (m.name, m.padding, need)))
    # ---- python statics
    if pycls is not None:
        if pycls._ALIGNMENT != lay.align:
            viol('py|alignment|%s|exp=%d|got=%s|%s' % (what, lay.align, pycls._ALIGNMENT, shape(ref, name)),
                 art('python _ALIGNMENT %s vs %d' % (pycls._ALIGNMENT, lay.align)))
        dyn = lay.kind != R.K_FIXED
        if bool(pycls._DYNAMIC) != dyn or bool(pycls._UNLIMITED) != (lay.kind == R.K_UNLIMITED):
            viol('py|kind|%s|exp=%s|got=dyn%d.unl%d|%s' % (what, R.KIND_NAMES[lay.kind], bool(pycls._DYNAMIC),
                                                          bool(pycls._UNLIMITED), shape(ref, name)),
                 art('python _DYNAMIC/_UNLIMITED %s/%s vs %s' % (pycls._DYNAMIC, pycls._UNLIMITED, R.KIND_NAMES[lay.kind])))
        if not dyn and pycls._SIZE != lay.size:
            viol('py|size|%s|d=%+d|%s' % (what, pycls._SIZE - lay.size, shape(ref, name)),
                 art('python _SIZE %s vs %d' % (pycls._SIZE, lay.size)))


def shape(ref, name):
    d = ref.resolve(name)
    if isinstance(d, S.Union):
        return 'union[' + ','.join(sse.type_class(ref, a.type) for a in d.arms) + ']'
    return 'struct[' + ','.join(sse.member_class(ref, m) for m in d.members) + ']'


def judge_batch(job):
    states, tier = job
    T.setup_repo()
    out = {'viol': [], 'types': 0, 'fixed_values': 0, 'states': 0, 'rejected': [], 'samples': [], 'checks': 0}
    try:
        prepared, rejected = sse.prepare(states)
        for st, stage, msg in rejected:
            out['rejected'].append((st.key, stage, msg))
        seen = set()
        for prep in prepared:
            ref = prep.ref
            nodes = sse.model_nodes_by_name(prep.nodes)
            state_of = dict(zip(prep.tops, prep.states))
            vg = V.Values(ref, tier)
            for d in prep.defs:
                if not isinstance(d, (S.Struct, S.Union, S.Typedef)):
                    continue
                name = d.name
                rd = ref.resolve(name)
                if not isinstance(rd, (S.Struct, S.Union)):
                    continue
                out['types'] += 1
                st = state_of.get(name)
                if st is not None:
                    out['states'] += 1

                def art(detail, name=name, st=st):
                    defs = S.closure(ref.defs, [name])
                    return {'schema': S.render_prophy(defs), 'defs': S.defs_to_json(defs), 'top': name,
                            'state': st.key if st else name, 'detail': detail}

                def viol(key, a):
                    out['viol'].append((key, a if (key not in seen) else None))
                    seen.add(key)
                node = nodes.get(name)
                if isinstance(d, S.Typedef):
                    # typedef node: stiffness must follow the aliased struct
                    lay = ref.layout(name)
                    if node is not None and isinstance(rd, S.Struct) and node.kind != lay.kind:
                        viol('model|typedef-kind|exp=%s|got=%s' % (R.KIND_NAMES[lay.kind], node.kind),
                             art('typedef %s stiffness %s vs %s' % (name, node.kind, lay.kind)))
                    out['checks'] += 1
                    continue
                check_type(ref, name, node, getattr(prep.mod, name, None), viol, art)
                out['checks'] += 6
                lay = ref.layout(name)
                if lay.kind == R.K_FIXED and st is not None:
                    cls = getattr(prep.mod, name)
                    vals, _ = vg.enumerate(name, 64 if tier == 'quick' else 256)
                    for v in vals:
                        out['fixed_values'] += 1
                        try:
                            n = len(T.build(ref, name, v, cls()).encode('<'))
                        except Exception as ex:     # noqa
                            viol('py|fixed-encode-raises|%s|%s' % (type(ex).__name__, shape(ref, name)), art(str(ex)))
                            continue
                        if n != lay.size:
                            viol('py|fixed-length|d=%+d|%s' % (n - lay.size, shape(ref, name)),
                                 art('encoding of fixed type is %d bytes, size %d; value %r' % (n, lay.size, v)))
                if len(out['samples']) < 2 and node is not None:
                    out['samples'].append({'type': shape(ref, name), 'size': lay.size, 'align': lay.align,
                                           'kind': R.KIND_NAMES[lay.kind], 'model': [node.byte_size, node.alignment, node.kind]})
    except Exception:       # noqa
        out['harness_error'] = traceback.format_exc()
    return out


def linear_extensions(defs):
    """All orders of defs that keep every definition after the ones it uses."""
    names = [d.name for d in defs]
    deps = {d.name: set(x for x in S.deps_of(d) if x in names) for d in defs}
    byname = {d.name: d for d in defs}
    out = []

    def go(done, rest):
        if not rest:
            out.append([byname[n] for n in done])
            return
        if len(out) >= 120:
            return
        for n in rest:
            if deps[n] <= set(done):
                go(done + [n], [r for r in rest if r != n])

    go([], names)
    return out


def judge_orders(job):
    """Every dependency-respecting order of one state's definitions gives identical layouts."""
    st, tier = job
    T.setup_repo()
    out = {'viol': [], 'orders': 0, 'types': 0}
    try:
        defs = list(st.helpers) + [U.materialize(st, 'X')]
        ref = R.Ref(defs)
        for order in linear_extensions(defs):
            text = S.render_prophy(order)
            res = T.compile_text(text, outs=('python',))
            out['orders'] += 1
            art = {'schema': text, 'defs': S.defs_to_json(order), 'top': 'X', 'state': st.key}
            if not res.ok:
                out['viol'].append(('order|prophyc-rejects|%s' % res.exc_type,
                                    dict(art, detail='order rejected: %s' % str(res.exc)[:300])))
                continue
            nodes = sse.model_nodes_by_name(res.nodes.get('m'))
            shutil.rmtree(res.outdir, ignore_errors=True)
            for d in order:
                if not isinstance(d, (S.Struct, S.Union)):
                    continue
                lay = ref.layout(d.name)
                n = nodes[d.name]
                out['types'] += 1
                if (n.byte_size, n.alignment, n.kind) != (lay.size, lay.align, lay.kind):
                    out['viol'].append(('order|layout|%s' % shape(ref, d.name),
                                        dict(art, detail='%s: model (%s,%s,%s) vs rules %s in this order' % (
                                            d.name, n.byte_size, n.alignment, n.kind, tuple(lay)))))
    except Exception:       # noqa
        out['harness_error'] = traceback.format_exc()
    return out


def run(ctx):
    from .. import docexamples
    n, problems = docexamples.selftest(T.REPO)
    if problems:
        raise HarnessError('oracle self-test failed: ' + '; '.join(problems[:3]))
    states = list(U.all_states(ctx.tier, ctx.seed))
    jobs = [(b, ctx.tier) for b in U.batches(states, sse.BATCH)]
    rejected = 0
    for res in ctx.pmap(judge_batch, jobs):
        if 'harness_error' in res:
            raise HarnessError(res['harness_error'])
        ctx.cov['states'] += res['types']
        ctx.cov['transitions'] += res['checks'] + res['fixed_values']
        ctx.cov['traces_validated_against_impl'] += res['types']
        ctx.cov['evaluations'] += res['checks'] + res['fixed_values']
        ctx.cov['fixed_type_encodings'] = ctx.cov.get('fixed_type_encodings', 0) + res['fixed_values']
        rejected += len(res['rejected'])
        for s in res['samples']:
            ctx.sample(s)
        for key, art in res['viol']:
            ctx.violation_counts[key] = ctx.violation_counts.get(key, 0) + 1
            if art is not None:
                ctx.violations.setdefault(key, []).append(art)
    # dependency orders: states with >= 2 composite definitions
    multi = [st for st in states if sum(1 for d in st.helpers if isinstance(d, (S.Struct, S.Union, S.Typedef))) >= 1]
    limit = 400 if ctx.tier == 'quick' else 4000
    if len(multi) > limit:
        ctx.cap('dependency orders explored for the first %d of %d multi-type states' % (limit, len(multi)))
        k = ctx.seed % len(multi)
        multi = (multi[k:] + multi[:k])[:limit]
    orders = 0
    for res in ctx.pmap(judge_orders, [(st, ctx.tier) for st in multi], chunksize=8):
        if 'harness_error' in res:
            raise HarnessError(res['harness_error'])
        orders += res['orders']
        ctx.cov['transitions'] += res['types']
        ctx.cov['evaluations'] += res['types']
        for key, art in res['viol']:
            ctx.violation_counts[key] = ctx.violation_counts.get(key, 0) + 1
            if len(ctx.violations.setdefault(key, [])) < 3:
                ctx.violations[key].append(art)
    ctx.cov['dependency_orders_compiled'] = orders
    ctx.cov['distinct_nontrivial'] = ctx.cov['states']
    ctx.cov['rejected_states'] = rejected
    # C++ constants: encoded_byte_size of every generated full-codec type (one value per state suffices)
    from .. import cppfull
    rule = ctx.cov['rule']
    cppfull.run_cpp(ctx, ['C04'], vcap=1)
    ctx.cov['cpp_constants'] = ('encoded_byte_size printed by the compiled driver is compared with the reference layout here; '
                                'raw sizeof/offsetof are compared with the same reference layout by C08')
    ctx.cov['rule'] = ('states = struct/union/typedef types of every explored schema state whose model node, Python statics and '
                       '(for fixed types) every encoding length were compared with the reference layout; transitions = '
                       'individual comparisons; non-trivial = every type (each has its own member sequence).')
    ctx.assumptions.append('size of a non-fixed type is compared as the size with all dynamic parts empty')


def replay(art):
    if art.get('side') == 'cpp':
        from .. import cppfull
        return cppfull.replay(art, 'C04')
    defs = S.defs_from_json(art['defs'])
    ref = R.Ref(defs)
    res = T.compile_text(art['schema'], outs=('python',))
    if not res.ok:
        return 'prophyc rejects: %s' % res.exc
    nodes = sse.model_nodes_by_name(res.nodes.get('m'))
    mod = T.import_generated(res.files['m.py'])
    found = []

    def viol(key, a):
        found.append((key, a))
    for d in defs:
        if isinstance(d, (S.Struct, S.Union)):
            check_type(ref, d.name, nodes.get(d.name), getattr(mod, d.name, None), viol, lambda detail: detail)
            lay = ref.layout(d.name)
            n = nodes[d.name]
            if (n.byte_size, n.alignment, n.kind) != (lay.size, lay.align, lay.kind):
                found.append(('layout', '%s model (%s,%s,%s) vs %s' % (d.name, n.byte_size, n.alignment, n.kind, tuple(lay))))
            if lay.kind == R.K_FIXED:
                vals, _ = V.Values(ref, 'quick').enumerate(d.name, 64)
                for v in vals:
                    try:
                        n2 = len(T.build(ref, d.name, v, getattr(mod, d.name)()).encode('<'))
                    except Exception as ex:     # noqa
                        found.append(('encode', str(ex)))
                        continue
                    if n2 != lay.size:
                        found.append(('fixed-length', '%s encodes to %d bytes, size %d' % (d.name, n2, lay.size)))
                        break
    if found:
        return 'schema:\n%s\n%s' % (art['schema'], '\n'.join('%s: %s' % f for f in found[:5]))
    return None
