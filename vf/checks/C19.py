"""C19 Byte order changes only the bytes inside scalars; padding is always zero."""
from .. import pyjudge, sse, toolchain as T, values as V, refmodel as R


def run(ctx):
    pyjudge.run_sse(ctx, ['C19'])
    try:
        from .. import cppfull
    except ImportError:
        cppfull = None
    if cppfull is not None:
        cppfull.run_cpp(ctx, ['C19'])
    ctx.assumptions.append('cases whose Python encoding already disagrees with the oracle (C01) are counted as not_judged '
                           'for the span-wise comparison; only their length equality is checked')


def replay(art):
    if art.get('side') == 'cpp':
        from .. import cppfull
        return cppfull.replay(art, 'C19')
    ref, mod, defs, res = sse.load_artefact(art)
    if ref is None:
        return 'prophyc rejected the schema: %s' % res.exc
    v = V.tree_from_json(art['value'])
    cls = getattr(mod, art['top'])
    exp, spans = ref.encode(art['top'], v, '<')
    pairs = []
    if art.get('build') == 'fresh':
        m = cls()
        outs = [m.encode(e) for e in '<><>']
        pairs = [(outs[0], outs[1]), (outs[2], outs[3]), (outs[2], outs[1])]
    else:
        pairs = [(T.build(ref, art['top'], v, cls()).encode('<'), T.build(ref, art['top'], v, cls()).encode('>'))]
    for le, be in pairs:
        if len(le) != len(be):
            return 'lengths differ: %d vs %d' % (len(le), len(be))
        if R.differs_only_in_padding(spans, exp, le):
            why = R.scalar_mirror_ok(spans, le, be)
            if why:
                return 'schema:\n%s\nvalue %r\n< %s\n> %s\n%s' % (art['schema'], v, le.hex(), be.hex(), why)
    return None
