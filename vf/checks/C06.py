"""C06 Python decode is total: any bytes decode or raise ProphyError, nothing else."""
import sys
import tracemalloc
import traceback

from .. import schema as S, refmodel as R, universe as U, values as V, toolchain as T, sse, faults as F, pyjudge
from ..run import HarnessError


class Budget(Exception):
    pass


class CallCounter(object):
    """Counts Python-level calls; aborts the decode when the deterministic budget is exceeded."""

    def __init__(self, budget):
        self.n = 0
        self.budget = budget

    def __call__(self, frame, event, arg):
        if event == 'call':
            self.n += 1
            if self.n > self.budget:
                sys.setprofile(None)
                raise Budget()


def timed_decode(cls, data, e, budget):
    import prophy
    msg = cls()
    cc = CallCounter(budget)
    sys.setprofile(cc)
    try:
        try:
            n = msg.decode(data, e)
            out = 'return'
        except prophy.ProphyError:
            n, out = None, 'ProphyError'
        except Budget:
            n, out = None, 'BUDGET'
        except RecursionError:
            n, out = None, 'RecursionError'
        except Exception as ex:     # noqa
            n, out = None, type(ex).__name__
    finally:
        sys.setprofile(None)
    return msg, n, out, cc.n


def fixpoint(ref, top, cls, msg, e, unlimited):
    """None or (kind, text): the returned message must encode, and decoding that encoding is a fixpoint."""
    import prophy
    try:
        enc1 = msg.encode(e)
    except Exception as ex:     # noqa
        return ('encode-raises-' + type(ex).__name__, str(ex)[:200])
    m2 = cls()
    try:
        n2 = m2.decode(enc1, e)
    except prophy.ProphyError as ex:
        if unlimited:
            return None
        return ('redecode-ProphyError', str(ex)[:200])
    except Exception as ex:     # noqa
        return ('redecode-raises-' + type(ex).__name__, str(ex)[:200])
    try:
        enc2 = m2.encode(e)
    except Exception as ex:     # noqa
        return ('reencode-raises-' + type(ex).__name__, str(ex)[:200])
    if unlimited:
        # documented greedy exception: trailing padding is indistinguishable from elements
        return None
    if n2 != len(enc1):
        return ('redecode-consumed', 'decode of own encoding returned %r of %d' % (n2, len(enc1)))
    if enc2 != enc1:
        return ('not-a-fixpoint-bytes', '%s -> %s' % (enc1.hex(), enc2.hex()))
    try:
        if repr(T.observe(ref, top, msg)) != repr(T.observe(ref, top, m2)):
            return ('not-a-fixpoint-value', 'values differ')
    except Exception as ex:     # noqa
        return ('observe-raises-' + type(ex).__name__, str(ex)[:200])
    return None


def judge_batch(job):
    states, tier, mode = job
    T.setup_repo()
    out = {'viol': [], 'states': 0, 'inputs': 0, 'distinct': 0, 'outcomes': {}, 'samples': [], 'valid': 0,
           'mem_checked': 0, 'max_calls_ratio': 0.0}
    try:
        prepared, rejected = sse.prepare(states)
        if rejected:
            out['harness_error'] = 'fault universe state rejected: %r' % (rejected[0][:2],)
            return out
        seen = {}

        def viol(key, st, top, ref, defs, data, e, label, detail):
            seen[key] = seen.get(key, 0) + 1
            art = None
            if seen[key] <= 2:
                text, sdefs = sse.state_text(st, 'X')
                art = {'schema': text, 'defs': S.defs_to_json(sdefs), 'top': 'X', 'state': st.key, 'endian': e,
                       'input': data.hex(), 'fault': label, 'detail': detail}
            out['viol'].append((key, art))

        for prep in prepared:
            ref = prep.ref
            vg = V.Values(ref, tier)
            for st, top in zip(prep.states, prep.tops):
                out['states'] += 1
                cls = getattr(prep.mod, top)
                lay = ref.layout(top)
                unlimited = lay.kind == R.K_UNLIMITED
                shape = pyjudge._shape_key(ref, top, st)
                if mode == 'short':
                    inputs = [('short', b, e) for b in F.short_strings(6 if tier == 'quick' else 8) for e in '<']
                    base_calls = 60
                else:
                    vals, _ = vg.enumerate(top, 6 if tier == 'quick' else 12)
                    vals = vals[:6 if tier == 'quick' else 12]
                    inputs = []
                    base_calls = 10
                    for v in vals:
                        for e in '<>':
                            data, spans = ref.encode(top, v, e)
                            msg, n, o, calls = timed_decode(cls, data, e, 10 ** 6)
                            base_calls = max(base_calls, calls)
                            out['valid'] += 1
                            for label, d in F.single_faults(data, spans, e, tier, lay.align):
                                inputs.append((label, d, e))
                            if tier == 'thorough':
                                for label, d in F.double_faults(data, spans, e, lay.align):
                                    inputs.append((label, d, e))
                budget = 4 * base_calls + 400
                done = set()
                for label, data, e in inputs:
                    k = (data, e)
                    if k in done:
                        continue
                    done.add(k)
                    out['inputs'] += 1
                    measure_mem = ('=0x' in label and label.split('=')[1] not in ('0x0', '0x1', '0x2')) and len(done) % 3 == 0
                    if measure_mem:
                        tracemalloc.start()
                    msg, n, o, calls = timed_decode(cls, data, e, budget)
                    if measure_mem:
                        cur, peak = tracemalloc.get_traced_memory()
                        tracemalloc.stop()
                        out['mem_checked'] += 1
                        if peak > 262144 + 256 * len(data):
                            viol('memory|%s|%s' % (label.split('@')[0], shape), st, top, ref, prep.defs, data, e, label,
                                 'decode allocated %d bytes for a %d byte input' % (peak, len(data)))
                    out['outcomes'][o] = out['outcomes'].get(o, 0) + 1
                    out['max_calls_ratio'] = max(out['max_calls_ratio'], calls / float(base_calls))
                    if o == 'BUDGET':
                        viol('budget|%s|%s' % (label.split('@')[0], shape), st, top, ref, prep.defs, data, e, label,
                             'decode exceeded %d Python calls (largest valid decode: %d)' % (budget, base_calls))
                    elif o not in ('return', 'ProphyError'):
                        viol('raises|%s|%s|%s' % (o, label.split('@')[0].split('+')[0], shape), st, top, ref, prep.defs,
                             data, e, label, 'decode raised %s' % o)
                    elif o == 'return':
                        out['distinct'] += 1
                        why = fixpoint(ref, top, cls, msg, e, unlimited)
                        if why:
                            viol('fixpoint|%s|%s|%s' % (why[0], label.split('@')[0].split('+')[0], shape), st, top, ref,
                                 prep.defs, data, e, label, why[1])
                    if len(out['samples']) < 2 and o == 'ProphyError' and 'counter' in label:
                        out['samples'].append({'state': st.key, 'fault': label, 'input': data.hex(), 'outcome': o})
    except Exception:       # noqa
        out['harness_error'] = traceback.format_exc()
    return out


# ---------------------------------------------------------------------------
# descriptors only the runtime API can express: sizer shift, structs without members
# ---------------------------------------------------------------------------

ELEMENT_BOUND = 65536       # the runtime's guard on decoded element counts


def runtime_zoo():
    import prophy
    mk = lambda name, desc: type(name, (prophy.with_metaclass(prophy.struct_generator, prophy.struct),), {'_descriptor': desc})   # noqa
    Empty = mk('Empty', [])
    S1 = mk('S1', [('a', prophy.u16)])
    zoo = []
    zoo.append((mk('ShiftU8', [('n', prophy.u32), ('x', prophy.array(prophy.u8, bound='n', shift=2))]),
                [lambda m: None, lambda m: m.x.extend([1, 2, 3])]))
    zoo.append((mk('ShiftStruct', [('n', prophy.u16), ('x', prophy.array(S1, bound='n', shift=1)), ('t', prophy.u8)]),
                [lambda m: None, lambda m: (m.x.add(), m.x.add())]))
    zoo.append((mk('ShiftBytes', [('n', prophy.u8), ('b', prophy.bytes(bound='n', shift=3))]),
                [lambda m: setattr(m, 'b', b''), lambda m: setattr(m, 'b', b'ab')]))   # (an unset bytes field is F11)
    zoo.append((mk('ShiftEmpty', [('n', prophy.u32), ('x', prophy.array(Empty, bound='n', shift=1))]),
                [lambda m: None, lambda m: m.x.add()]))
    zoo.append((mk('BoundEmpty', [('n', prophy.u32), ('x', prophy.array(Empty, bound='n')), ('t', prophy.u8)]),
                [lambda m: None, lambda m: (m.x.add(), m.x.add())]))
    zoo.append((mk('GreedyEmpty', [('a', prophy.u8), ('g', prophy.array(Empty))]),
                [lambda m: None, lambda m: m.g.add()]))
    zoo.append((mk('OnlyEmpty', [('e', Empty), ('t', prophy.u16)]), [lambda m: None]))
    # one array / bytes type object used by two struct definitions (a plain Python "typedef") whose blocks behind it
    # are aligned differently, the more aligned one defined first and defined last
    fill = [lambda m: None, lambda m: (m.x.extend([5]), setattr(m, 'a', 0xAA), hasattr(m, 'b') and setattr(m, 'b', 0x01020304)),
            lambda m: (m.x.extend([1, 2, 3, 4, 5]), setattr(m, 'a', 1))]
    P1 = prophy.array(prophy.u8, bound='n')
    zoo.append((mk('SharedHiFirst', [('n', prophy.u8), ('x', P1), ('a', prophy.u8), ('b', prophy.u32)]), fill))
    zoo.append((mk('SharedLoLast', [('n', prophy.u8), ('x', P1), ('a', prophy.u8)]), fill))
    P2 = prophy.array(prophy.u16, bound='n')
    zoo.append((mk('SharedLoFirst', [('n', prophy.u8), ('x', P2), ('a', prophy.u16)]), fill))
    zoo.append((mk('SharedHiLast', [('n', prophy.u8), ('x', P2), ('a', prophy.u8), ('b', prophy.u64)]), fill))
    P3 = prophy.bytes(bound='n')
    bfill = [lambda m: setattr(m, 'x', b''), lambda m: (setattr(m, 'x', b'abc'), setattr(m, 'a', 7))]
    zoo.append((mk('SharedBytesHi', [('n', prophy.u8), ('x', P3), ('a', prophy.u8), ('b', prophy.u32)]), bfill))
    zoo.append((mk('SharedBytesLo', [('n', prophy.u8), ('x', P3), ('a', prophy.u8)]), bfill))
    return zoo


def word_faults(data, e):
    """Span-free fault menu: every proper prefix, short extensions, every 1-, 2- and 4-byte word at every offset replaced
    by boundary values (so every control word is hit whatever the layout is)."""
    import struct as _st
    for k in range(len(data)):
        yield 'prefix@%d' % k, data[:k]
    for ext in (b'\x00', b'\xff', b'\x00' * 4, b'\xff' * 8):
        yield 'extend+%d' % len(ext), data + ext
    vals = {1: [0, 1, 2, 3, 4, 0x7f, 0x80, 0xff],
            2: [0, 1, 2, 3, 0x7fff, 0x8000, 0xffff],
            4: [0, 1, 2, 3, 0xffff, 0x10000, 0x10001, 0x10002, 200000, 0x7fffffff, 0x80000000, 0xffffffff]}
    for w in (1, 2, 4):
        for i in range(0, len(data) - w + 1):
            for v in vals[w]:
                yield 'word%d@%d=0x%x' % (w, i, v), data[:i] + _st.pack(e + {1: 'B', 2: 'H', 4: 'I'}[w], v) + data[i + w:]


def array_lengths(msg):
    out = []
    for name, tp, kind in msg.get_descriptor():
        v = getattr(msg, name, None)
        if hasattr(v, '_values'):
            out.append(len(v))
            out += [n for el in v if hasattr(el, 'get_descriptor') for n in array_lengths(el)]
        elif hasattr(v, 'get_descriptor'):
            out += array_lengths(v)
    return out


def judge_runtime_zoo(job):
    import prophy
    T.setup_repo()
    out = {'viol': [], 'inputs': 0, 'outcomes': {}, 'distinct': 0, 'classes': 0}
    seen = {}

    def viol(key, cls, data, e, label, detail):
        seen[key] = seen.get(key, 0) + 1
        out['viol'].append((key, {'runtime_zoo': cls.__name__, 'endian': e, 'input': data.hex(), 'fault': label, 'detail': detail}
                            if seen[key] <= 2 else None))
    try:
        for cls, builders in runtime_zoo():
            out['classes'] += 1
            base_calls, inputs = 10, []
            for b in builders:
                for e in '<>':
                    m = cls()
                    b(m)
                    data = m.encode(e)
                    base_calls = max(base_calls, timed_decode(cls, data, e, 10 ** 6)[3])
                    inputs.append(('valid', data, e))
                    inputs += [(label, d, e) for label, d in word_faults(data, e)]
            # work is bounded by the input size or, for elements without bytes, by the runtime's element bound
            budget = 4 * base_calls + 400 + 40 * ELEMENT_BOUND
            done = set()
            for label, data, e in inputs:
                if (data, e) in done:
                    continue
                done.add((data, e))
                out['inputs'] += 1
                msg, n, o, calls = timed_decode(cls, data, e, budget)
                out['outcomes'][o] = out['outcomes'].get(o, 0) + 1
                kind = label.split('@')[0].split('+')[0]
                if o == 'BUDGET':
                    viol('runtime|budget|%s|%s' % (cls.__name__, kind), cls, data, e, label, 'decode exceeded %d Python calls' % budget)
                elif o == 'ProphyError' and label == 'valid' and cls.__name__ != 'GreedyEmpty':
                    viol('runtime|valid-rejected|%s' % cls.__name__, cls, data, e, label, 'decode refused what encode wrote')
                elif o not in ('return', 'ProphyError'):
                    viol('runtime|raises|%s|%s|%s' % (o, cls.__name__, kind), cls, data, e, label, 'decode raised %s' % o)
                elif o == 'return':
                    out['distinct'] += 1
                    big = [k for k in array_lengths(msg) if k > ELEMENT_BOUND]
                    if big:
                        viol('runtime|element-count-unbounded|%s' % cls.__name__, cls, data, e, label,
                             'decode of %d bytes returned an array of %d elements (bound %d)' % (len(data), big[0], ELEMENT_BOUND))
                        continue
                    if label == 'valid' and msg.encode(e) != data:
                        viol('runtime|valid-decodes-to-other|%s' % cls.__name__, cls, data, e, label, 're-encodes as %s' % msg.encode(e).hex())
                    if label == 'valid' and n != len(data):
                        viol('runtime|valid-not-consumed|%s' % cls.__name__, cls, data, e, label, 'returned %r' % n)
                    try:
                        enc1 = msg.encode(e)
                        m2 = cls()
                        n2 = m2.decode(enc1, e)
                        if n2 != len(enc1) or m2.encode(e) != enc1:
                            viol('runtime|not-a-fixpoint|%s|%s' % (cls.__name__, kind), cls, data, e, label,
                                 '%s -> %s (%r of %d consumed)' % (enc1.hex(), m2.encode(e).hex(), n2, len(enc1)))
                    except Exception as ex:     # noqa
                        if not (cls.__name__ == 'GreedyEmpty' and isinstance(ex, prophy.ProphyError)):
                            viol('runtime|fixpoint-raises|%s|%s|%s' % (type(ex).__name__, cls.__name__, kind), cls, data, e,
                                 label, str(ex)[:200])
    except Exception:       # noqa
        out['harness_error'] = traceback.format_exc()
    return out


def run(ctx):
    for res in ctx.pmap(judge_runtime_zoo, [None]):
        if 'harness_error' in res:
            raise HarnessError(res['harness_error'])
        ctx.cov['evaluations'] += res['inputs']
        ctx.cov['states'] += res['inputs']
        ctx.cov['transitions'] += res['inputs']
        ctx.cov['traces_validated_against_impl'] += res['inputs']
        ctx.cov['runtime_only_descriptors'] = res['classes']
        ctx.cov['runtime_only_inputs'] = res['inputs']
        for k, n in res['outcomes'].items():
            ctx.outcome(k, n)
        for key, art in res['viol']:
            ctx.violation_counts[key] = ctx.violation_counts.get(key, 0) + 1
            if art is not None and len(ctx.violations.setdefault(key, [])) < 3:
                ctx.violations[key].append(art)
    states = F.fault_universe(ctx.tier, ctx.seed)
    jobs = [(b, ctx.tier, 'faults') for b in U.batches(states, 12)]
    jobs += [(b, ctx.tier, 'short') for b in U.batches(F.short_string_schemas(), 2)]
    ratio = 0.0
    nstates = 0
    for res in ctx.pmap(judge_batch, jobs):
        if 'harness_error' in res:
            raise HarnessError(res['harness_error'])
        nstates += res['states']
        ctx.cov['evaluations'] += res['inputs']
        ctx.cov['distinct_nontrivial'] += res['distinct']
        ctx.cov['states'] += res['inputs']
        ctx.cov['transitions'] += res['inputs']
        ctx.cov['traces_validated_against_impl'] += res['inputs']
        ctx.cov['valid_encodings'] = ctx.cov.get('valid_encodings', 0) + res['valid']
        ctx.cov['memory_measured'] = ctx.cov.get('memory_measured', 0) + res['mem_checked']
        ratio = max(ratio, res['max_calls_ratio'])
        for k, n in res['outcomes'].items():
            ctx.outcome(k, n)
        for s in res['samples']:
            ctx.sample(s)
        for key, art in res['viol']:
            ctx.violation_counts[key] = ctx.violation_counts.get(key, 0) + 1
            if art is not None and len(ctx.violations.setdefault(key, [])) < 3:
                ctx.violations[key].append(art)
    for key in [k for k, v in ctx.violations.items() if not v]:
        del ctx.violations[key]
    ctx.cov['schema_states'] = nstates
    ctx.cov['max_call_ratio_vs_valid_decode'] = round(ratio, 2)
    ctx.cov['rule'] = ('inputs = valid encodings of the fault universe x the complete single-fault menu (every proper prefix; '
                       'extensions by 1/alignment/8 bytes of 00 and FF; every counter, sizer, flag, discriminator and enum word '
                       'replaced by each of 13+ boundary values; every byte xor 01, xor 80, set FF) %s, plus all strings of '
                       'length <= %d over {00,01,02,03,FF} for %d small schemas. distinct_nontrivial = distinct corrupted '
                       'inputs that decode returned on (fixpoint checked). Outcome must be return or ProphyError within '
                       '4x the Python-call count of the largest valid decode + 400. Thirteen hand-written descriptors '
                       '(sizer shift, structs without members: not expressible in the IDL) get a layout-free menu: every prefix, '
                       'every 1/2/4-byte word at every offset x boundary values; besides the outcome and the fixpoint, no returned '
                       'array may exceed the runtime element bound of 65536.' % (
                           '+ pairs of control-word faults and prefix-after-fault' if ctx.tier == 'thorough' else '(deviation bound 1)',
                           6 if ctx.tier == 'quick' else 8, len(F.short_string_schemas())))
    if len(ctx.cov['outcomes']) < 2:
        raise HarnessError('vacuous: a single decode outcome over all faults')


def replay(art):
    import prophy
    if art.get('runtime_zoo'):
        out = judge_runtime_zoo(None)
        hits = [a for k, a in out['viol'] if a and a['runtime_zoo'] == art['runtime_zoo'] and a['fault'].split('@')[0] ==
                art['fault'].split('@')[0]] or [a for k, a in out['viol'] if a and a['runtime_zoo'] == art['runtime_zoo']]
        if hits:
            return 'hand-written descriptor %s, input %s (%s): %s' % (hits[0]['runtime_zoo'], hits[0]['input'], hits[0]['endian'],
                                                                      hits[0]['detail'])
        return None
    defs = S.defs_from_json(art['defs'])
    ref = R.Ref(defs)
    res = T.compile_text(art['schema'], outs=('python',))
    if not res.ok:
        return 'prophyc rejects: %s' % res.exc
    mod = T.import_generated(res.files['m.py'])
    cls = getattr(mod, art['top'])
    data = bytes.fromhex(art['input'])
    msg, n, o, calls = timed_decode(cls, data, art['endian'], 200000)
    problems = []
    if o not in ('return', 'ProphyError'):
        problems.append('decode outcome %s' % o)
    if o == 'return':
        why = fixpoint(ref, art['top'], cls, msg, art['endian'], ref.layout(art['top']).kind == R.K_UNLIMITED)
        if why:
            problems.append('%s: %s' % why)
    if 'memory' in art.get('detail', '') or 'allocated' in art.get('detail', ''):
        tracemalloc.start()
        timed_decode(cls, data, art['endian'], 10 ** 7)
        cur, peak = tracemalloc.get_traced_memory()
        tracemalloc.stop()
        if peak > 262144 + 256 * len(data):
            problems.append('allocated %d bytes' % peak)
    if 'exceeded' in art.get('detail', ''):
        vals, _ = V.Values(ref, 'quick').enumerate(art['top'], 6)
        base = 10
        for v in vals[:6]:
            for e in '<>':
                d, _ = ref.encode(art['top'], v, e)
                base = max(base, timed_decode(cls, d, e, 10 ** 6)[3])
        if timed_decode(cls, data, art['endian'], 4 * base + 400)[2] == 'BUDGET':
            problems.append('exceeds call budget %d' % (4 * base + 400))
    if problems:
        return 'schema:\n%s\ninput %s (%s, fault %s)\n%s' % (art['schema'], art['input'], art['endian'], art['fault'],
                                                            '\n'.join(problems))
    return None
