"""C02 Python decode inverts encode and consumes exactly the message."""
from .. import pyjudge, sse, toolchain as T, values as V


def run(ctx):
    pyjudge.run_sse(ctx, ['C02'])
    ctx.assumptions += [
        'greedy tails that do not end on the message alignment are excluded, as the property states',
    ]


def replay(art):
    ref, mod, defs, res = sse.load_artefact(art)
    if ref is None:
        return 'prophyc rejected the schema: %s' % res.exc
    v = V.tree_from_json(art['value'])
    data = bytes.fromhex(art['expected'])
    cls = getattr(mod, art['top'])
    why = pyjudge._roundtrip(ref, art['top'], cls, v, data, art['endian'], None)
    if why is None and 'used target' in art.get('detail', ''):
        # replay with some other value stored first: try every value of the universe as the previous one
        vals, _ = V.Values(ref, 'quick').enumerate(art['top'], 64)
        for prev in vals:
            why = pyjudge._roundtrip(ref, art['top'], cls, v, data, art['endian'], prev)
            if why:
                break
    if why:
        return 'schema:\n%s\nvalue %r\nbytes %s (%s)\n%s: %s' % (art['schema'], v, data.hex(), art['endian'], why[0], why[1])
    return None
