"""Plain reference model of the Python message API (C10, C11) and the operation alphabet.

Model state of a type:
  struct -> dict name -> state ; scalar -> int/float ; enum -> enumerator name ; bytes -> bytes
  optional -> None | state ; arrays -> list of states ; union -> [armname, state]
The model is deliberately boring: dicts, lists, explicit range / limit / type checks.
An operation is (path, name, args); path navigates to the container the operation acts on:
  ('f', field) attribute of a struct, ('i', index) element of an array, ('arm', name) union arm.
Outcomes: 'ok', 'ProphyError', 'IndexError', 'ValueError'.
"""
import copy

from . import schema as S
from . import refmodel as R

OK, REJ, IDX, VAL = 'ok', 'ProphyError', 'IndexError', 'ValueError'


class Reject(Exception):
    def __init__(self, kind, why=''):
        Exception.__init__(self, kind)
        self.kind = kind
        self.why = why


class ItArg(object):
    """An iterator argument (a fresh iterator is made for every execution)."""

    def __init__(self, items):
        self.items = list(items)

    def __repr__(self):
        return 'iter(%r)' % (self.items,)

    def make(self):
        return iter(list(self.items))


class ApiModel(object):
    def __init__(self, ref):
        self.ref = ref

    # ------------------------------------------------------------- defaults
    def default(self, t):
        ref = self.ref
        r = ref.resolve(t)
        if isinstance(r, str):
            return 0.0 if r in S.FLOATS else 0
        if isinstance(r, S.Enum):
            return r.members[0][0]
        if isinstance(r, S.Union):
            return [r.arms[0].name, self.default(r.arms[0].type)]
        out = {}
        for f in ref.fields(r.name):
            if f.kind in ('counter', 'sizer'):
                continue
            out[f.name] = self.default_field(f)
        return out

    def rich(self, t):
        """Like default, but optionals of composites are present and unions sit on their first composite arm
        (values that own nested objects: material for aliasing)."""
        ref = self.ref
        r = ref.resolve(t)
        if isinstance(r, str) or isinstance(r, S.Enum):
            return self.default(t)
        if isinstance(r, S.Union):
            for a in r.arms:
                if isinstance(ref.resolve(a.type), (S.Struct, S.Union)):
                    return [a.name, self.rich(a.type)]
            return self.default(t)
        out = {}
        for f in ref.fields(r.name):
            if f.kind in ('counter', 'sizer'):
                continue
            if f.kind == 'comp':
                out[f.name] = self.rich(f.type)
            elif f.kind == 'opt' and isinstance(ref.resolve(f.type), (S.Struct, S.Union)):
                out[f.name] = self.rich(f.type)
            else:
                out[f.name] = self.default_field(f)
        return out

    def default_field(self, f):
        if f.kind in ('scalar', 'enum', 'comp'):
            return self.default(f.type)
        if f.kind == 'opt':
            return None
        if f.kind == 'bytes':
            return b'\x00' * f.n if f.mode == 'fixed' else b''
        if f.kind == 'array':
            return [self.default(f.type) for _ in range(f.n)] if f.mode == 'fixed' else []
        raise ValueError(f.kind)

    # ------------------------------------------------------------- checks
    def check_value(self, t, v):
        """Value accepted for a scalar / enum slot of type t -> stored form, else Reject."""
        r = self.ref.resolve(t)
        if isinstance(r, S.Enum):
            if isinstance(v, str):
                for n, _ in r.members:
                    if n == v:
                        return n
                raise Reject(REJ)
            if isinstance(v, int):           # bool is an int in Python
                for n, val in r.members:
                    if R.to_int(val) == int(v):
                        return n
                raise Reject(REJ)
            raise Reject(REJ)
        if r in S.FLOATS:
            if isinstance(v, (int, float)):
                if r == 'float' and abs(float(v)) > 3.4028235677973366e38 and abs(float(v)) != float('inf'):
                    raise Reject(REJ)       # the wire cannot hold it
                return float(v)
            raise Reject(REJ)
        if isinstance(v, int):
            lo, hi = S.INT_RANGE[r]
            if lo <= v <= hi:
                return int(v)
        raise Reject(REJ)

    def check_bytes(self, f, v):
        if not isinstance(v, bytes):
            raise Reject(REJ)
        if f.mode in ('fixed', 'limited') and len(v) > f.n:
            raise Reject(REJ)
        if f.mode == 'fixed':
            return v.ljust(f.n, b'\x00')
        return v

    def sizer_capacity(self, sname, f):
        """Greatest element count the counter of array field f can express."""
        if f.mode == 'limited':
            return f.n
        if f.mode == 'counted':
            for g in self.ref.fields(sname):
                if g.name == f.counter:
                    lo, hi = S.INT_RANGE[g.type]
                    return hi
        return None

    # ------------------------------------------------------------- navigation
    def navigate(self, t, state, path):
        """Returns (type, container state, field descriptor or None, struct name) at the end of path.
        Raises Reject if the path does not exist in this state."""
        ref = self.ref
        cur_t, cur = t, state
        for step in path:
            r = ref.resolve(cur_t) if not isinstance(cur_t, tuple) else None
            if step[0] == 'f':
                f = [x for x in ref.fields(r.name) if x.name == step[1]][0]
                val = cur[f.name]
                if f.kind == 'opt' and val is None:
                    raise Reject('absent')
                if f.kind == 'array':
                    cur_t, cur = ('array', r.name, f), val
                else:
                    cur_t, cur = f.type, val
            elif step[0] == 'i':
                _, sname, f = cur_t
                if not -len(cur) <= step[1] < len(cur):
                    raise Reject(IDX)
                cur_t, cur = f.type, cur[step[1]]
            elif step[0] == 'arm':
                if cur[0] != step[1]:
                    raise Reject(REJ)
                arm = [a for a in r.arms if a.name == step[1]][0]
                cur_t, cur = arm.type, cur[1]
        return cur_t, cur

    # ------------------------------------------------------------- apply
    def apply(self, t, state, op):
        """Returns (outcome, new state).  The input state is never modified."""
        new = copy.deepcopy(state)
        try:
            self._apply(t, new, op)
        except Reject as e:
            kind = e.kind if e.kind in (REJ, IDX, VAL) else REJ
            self.last_why = e.why
            return kind, state
        self.last_why = ''
        return OK, new

    def _apply(self, t, state, op):
        path, name, args = op
        ref = self.ref
        cur_t, cur = self.navigate(t, state, path)
        if isinstance(cur_t, tuple):
            return self._apply_array(cur_t[1], cur_t[2], cur, name, args)
        r = ref.resolve(cur_t)
        if isinstance(r, S.Union):
            return self._apply_union(r, cur, name, args)
        # struct-level operation: set attribute
        assert name == 'set'
        fname, v = args
        f = [x for x in ref.fields(r.name) if x.name == fname][0]
        if f.kind in ('array', 'comp'):
            raise Reject(REJ)
        if f.kind in ('scalar', 'enum'):
            cur[fname] = self.check_value(f.type, v)
        elif f.kind == 'bytes':
            cur[fname] = self.check_bytes(f, v)
        elif f.kind == 'opt':
            er = ref.resolve(f.type)
            if v is None:
                cur[fname] = None
            elif isinstance(er, (S.Struct, S.Union)):
                if v is True:
                    cur[fname] = self.default(f.type)
                else:
                    raise Reject(REJ)
            else:
                cur[fname] = self.check_value(f.type, v)

    def _apply_union(self, u, cur, name, args):
        if name == 'disc':
            v = args[0]
            for a in u.arms:
                if (isinstance(v, str) and v == a.name) or \
                        (isinstance(v, int) and not isinstance(v, bool) and v == R.to_int(a.disc)) or \
                        (isinstance(v, bool) and int(v) == R.to_int(a.disc)):
                    if cur[0] != a.name:
                        cur[0] = a.name
                        cur[1] = self.default(a.type)
                    return
            raise Reject(REJ)
        assert name == 'set'
        fname, v = args
        arm = [a for a in u.arms if a.name == fname][0]
        if cur[0] != fname:
            raise Reject(REJ)
        if isinstance(self.ref.resolve(arm.type), (S.Struct, S.Union)):
            raise Reject(REJ)
        cur[1] = self.check_value(arm.type, v)

    def _apply_array(self, sname, f, lst, name, args):
        ref = self.ref
        er = ref.resolve(f.type)
        composite = isinstance(er, (S.Struct, S.Union))
        cap = self.sizer_capacity(sname, f)

        def chk(v):
            return self.check_value(f.type, v)

        def fits(n):
            if cap is not None and n > cap:
                raise Reject(REJ, 'limit' if f.mode == 'limited' else 'sizer-capacity')

        if f.mode == 'fixed':
            if name == 'setitem':
                i, v = args
                v = chk(v)
                if not -len(lst) <= i < len(lst):
                    raise Reject(IDX)
                lst[i] = v
            elif name == 'setslice':
                i, j, vs = args
                vs = self._iter_values(vs, chk)
                if len(lst[i:j]) != len(vs):
                    raise Reject(REJ)
                lst[i:j] = vs
            else:
                raise ValueError(name)
            return
        if name == 'append':
            v = chk(args[0])
            fits(len(lst) + 1)
            lst.append(v)
        elif name == 'insert':
            i, v = args
            v = chk(v)
            fits(len(lst) + 1)
            lst.insert(i, v)
        elif name == 'extend':
            if composite:
                items = args[0]
                if items == 'SELF':             # the array extended with itself, as a list allows
                    items = list(lst)
                elif isinstance(items, ItArg):
                    items = items.items
                vs = []
                for x in items:
                    if not isinstance(x, (dict, list)):
                        raise Reject(REJ, 'wrong-element-type')
                    vs.append(copy.deepcopy(x))
            else:
                vs = self._iter_values(args[0], chk)
            fits(len(lst) + len(vs))
            lst.extend(vs)
        elif name == 'setitem':
            i, v = args
            v = chk(v)
            if not -len(lst) <= i < len(lst):
                raise Reject(IDX)
            lst[i] = v
        elif name == 'setslice':
            i, j, vs = args
            vs = self._iter_values(vs, chk)
            fits(len(lst) - len(lst[i:j]) + len(vs))
            lst[i:j] = vs
        elif name == 'setext':
            i, j, k, vs = args
            vs = self._iter_values(vs, chk)
            if len(lst[i:j:k]) != len(vs):
                raise Reject(VAL)
            lst[i:j:k] = vs
        elif name == 'delitem':
            i = args[0]
            if not -len(lst) <= i < len(lst):
                raise Reject(IDX)
            del lst[i]
        elif name == 'delslice':
            i, j = args
            del lst[i:j]
        elif name == 'delext':
            i, j, k = args
            del lst[i:j:k]
        elif name == 'remove':
            if args[0] not in lst:
                raise Reject(VAL)
            lst.remove(args[0])
        elif name == 'add':
            fits(len(lst) + 1)
            elem = self.default(f.type)
            for k, v in args[0]:
                ef = [x for x in ref.fields(er.name) if x.name == k][0]
                if ef.kind in ('scalar', 'enum'):
                    elem[k] = self.check_value(ef.type, v)
                elif ef.kind == 'bytes':
                    elem[k] = self.check_bytes(ef, v)
                elif ef.kind == 'array':
                    elem[k] = [self.check_value(ef.type, x) for x in v]
                else:
                    raise Reject(REJ)
            lst.append(elem)
        else:
            raise ValueError(name)

    def _iter_values(self, vs, chk):
        items = vs.items if isinstance(vs, ItArg) else list(vs)
        return [chk(v) for v in items]

    # ------------------------------------------------------------- value tree
    def to_tree(self, t, state):
        """Model state -> value tree of vf.values / refmodel (union as tuple)."""
        ref = self.ref
        r = ref.resolve(t)
        if isinstance(r, (str, S.Enum)):
            return state
        if isinstance(r, S.Union):
            arm = [a for a in r.arms if a.name == state[0]][0]
            return (state[0], self.to_tree(arm.type, state[1]))
        out = {}
        for f in ref.fields(r.name):
            if f.kind in ('counter', 'sizer'):
                continue
            v = state[f.name]
            if f.kind == 'opt':
                out[f.name] = None if v is None else self.to_tree(f.type, v)
            elif f.kind == 'array':
                out[f.name] = [self.to_tree(f.type, e) for e in v]
            elif f.kind == 'comp':
                out[f.name] = self.to_tree(f.type, v)
            else:
                out[f.name] = v
        return out

    def from_tree(self, t, tree):
        ref = self.ref
        r = ref.resolve(t)
        if isinstance(r, (str, S.Enum)):
            return tree
        if isinstance(r, S.Union):
            arm = [a for a in r.arms if a.name == tree[0]][0]
            return [tree[0], self.from_tree(arm.type, tree[1])]
        out = {}
        for f in ref.fields(r.name):
            if f.kind in ('counter', 'sizer'):
                continue
            v = tree[f.name]
            if f.kind == 'opt':
                out[f.name] = None if v is None else self.from_tree(f.type, v)
            elif f.kind == 'array':
                out[f.name] = [self.from_tree(f.type, e) for e in v]
            elif f.kind == 'comp':
                out[f.name] = self.from_tree(f.type, v)
            else:
                out[f.name] = v
        return out

    def encodable(self, t, state):
        """None if the state must encode, else the documented refusal ('shared-sizer')."""
        ref = self.ref
        r = ref.resolve(t)
        if isinstance(r, S.Union):
            arm = [a for a in r.arms if a.name == state[0]][0]
            return self.encodable(arm.type, state[1])
        if not isinstance(r, S.Struct):
            return None
        fields = ref.fields(r.name)
        groups = {}
        for f in fields:
            if f.kind in ('array', 'bytes') and f.mode == 'counted' and not f.counter.startswith('num_of_'):
                groups.setdefault(f.counter, set()).add(len(state[f.name]))
        if any(len(s) > 1 for s in groups.values()):
            return 'shared-sizer'
        for f in fields:
            if f.kind == 'comp' or (f.kind == 'opt' and state[f.name] is not None):
                w = self.encodable(f.type, state[f.name])
                if w:
                    return w
            elif f.kind == 'array':
                for e in state[f.name]:
                    w = self.encodable(f.type, e)
                    if w:
                        return w
        return None


# ---------------------------------------------------------------------------
# operation alphabet
# ---------------------------------------------------------------------------

def scalar_args(ref, t):
    r = ref.resolve(t)
    if isinstance(r, S.Enum):
        names = [n for n, _ in r.members]
        return [names[0], names[-1], R.to_int(r.members[1 % len(names)][1]), 77, 'nope', 1.5, None]
    if r in S.FLOATS:
        return [1.5, 7, 1e39 if r == 'float' else 1e300, None, 'x']
    lo, hi = S.INT_RANGE[r]
    return [lo - 1, lo, 1, hi, hi + 1, 1.5, None, 'x']


def good_values(ref, t):
    r = ref.resolve(t)
    if isinstance(r, S.Enum):
        names = [n for n, _ in r.members]
        return [names[i % len(names)] for i in range(1, 5)]
    if r in S.FLOATS:
        return [1.5, -2.25, 8.0, 0.5]
    lo, hi = S.INT_RANGE[r]
    return [1, 2, hi, 3]


def ops_for(model, t, state, depth=0, prefix=()):
    """Operations enabled in `state` (alphabet ordered simplest first)."""
    ref = model.ref
    r = ref.resolve(t)
    ops = []
    if isinstance(r, S.Union):
        for a in r.arms:
            ops.append((prefix, 'disc', (a.name,)))
        ops.append((prefix, 'disc', (R.to_int(r.arms[-1].disc),)))
        ops.append((prefix, 'disc', (99,)))
        ops.append((prefix, 'disc', ('nope',)))
        for a in r.arms:
            ar = ref.resolve(a.type)
            if isinstance(ar, (S.Struct, S.Union)):
                ops.append((prefix, 'set', (a.name, 5)))
                if state[0] == a.name and depth < 2:
                    ops += ops_for(model, a.type, state[1], depth + 1, prefix + (('arm', a.name),))
            else:
                g = good_values(ref, a.type)
                ops.append((prefix, 'set', (a.name, g[0])))
                ops.append((prefix, 'set', (a.name, g[-2])))
                over = 'nope' if isinstance(ar, S.Enum) or ar in S.FLOATS else S.INT_RANGE[ar][1] + 1
                ops.append((prefix, 'set', (a.name, over)))
        return ops
    for f in ref.fields(r.name):
        if f.kind in ('counter', 'sizer'):
            continue
        if f.kind in ('scalar', 'enum'):
            for v in scalar_args(ref, f.type):
                ops.append((prefix, 'set', (f.name, v)))
        elif f.kind == 'bytes':
            n = f.n or 3
            for v in (b'', b'x', b'a' * n, b'b' * (n + 1), 'x', None, 5):
                ops.append((prefix, 'set', (f.name, v)))
        elif f.kind == 'comp':
            ops.append((prefix, 'set', (f.name, 5)))
            if depth < 2:
                ops += ops_for(model, f.type, state[f.name], depth + 1, prefix + (('f', f.name),))
        elif f.kind == 'opt':
            er = ref.resolve(f.type)
            ops.append((prefix, 'set', (f.name, None)))
            if isinstance(er, (S.Struct, S.Union)):
                ops.append((prefix, 'set', (f.name, True)))
                ops.append((prefix, 'set', (f.name, 5)))
                if state[f.name] is not None and depth < 2:
                    ops += ops_for(model, f.type, state[f.name], depth + 1, prefix + (('f', f.name),))
            else:
                for v in scalar_args(ref, f.type):
                    if v is not None:
                        ops.append((prefix, 'set', (f.name, v)))
        elif f.kind == 'array':
            ops.append((prefix, 'set', (f.name, [1])))
            ops += array_ops(model, r.name, f, state[f.name], depth, prefix + (('f', f.name),))
    return ops


def array_ops(model, sname, f, lst, depth, path):
    ref = model.ref
    er = ref.resolve(f.type)
    composite = isinstance(er, (S.Struct, S.Union))
    ops = []
    if composite:
        if f.mode != 'fixed':
            ops.append((path, 'add', ((),)))
            sub = ref.fields(er.name) if isinstance(er, S.Struct) else []
            kw = []
            for ef in sub:
                if ef.kind == 'scalar' and not kw:
                    kw.append((ef.name, good_values(ref, ef.type)[1]))
            if kw:
                ops.append((path, 'add', (tuple(kw),)))
                ops.append((path, 'add', (((kw[0][0], 'x'),),)))
            e1 = model.default(f.type)
            ops.append((path, 'extend', ([e1],)))
            ops.append((path, 'extend', ([e1, e1, e1],)))
            ops.append((path, 'extend', ([],)))
            ops.append((path, 'extend', (ItArg([e1, e1]),)))
            ops.append((path, 'extend', ('SELF',)))
            e2 = model.rich(f.type)
            if e2 != e1:
                ops.append((path, 'extend', ([e2, e2],)))
            ops.append((path, 'extend', ([e1, 'x'],)))
            ops.append((path, 'extend', ([e1, None],)))
            ops.append((path, 'delitem', (0,)))
            ops.append((path, 'delitem', (99,)))
            ops.append((path, 'delslice', (0, 1)))
            ops.append((path, 'delext', (None, None, 2)))
        if depth < 2:
            for i in range(min(len(lst), 2)):
                ops += ops_for(model, f.type, lst[i], depth + 1, path + (('i', i),))
        return ops
    g = good_values(ref, f.type)
    if isinstance(er, S.Enum) or er in S.FLOATS:
        over = 'nope'
    else:
        over = S.INT_RANGE[er][1] + 1
    if f.mode == 'fixed':
        ops += [(path, 'setitem', (0, g[0])), (path, 'setitem', (-1, g[1])), (path, 'setitem', (99, g[0])),
                (path, 'setitem', (0, over)),
                (path, 'setslice', (0, 1, [g[2]])), (path, 'setslice', (0, 2, [g[0]])),
                (path, 'setslice', (None, None, [g[1]] * f.n)), (path, 'setslice', (0, 1, [over])),
                (path, 'setslice', (-1, None, [g[0]])), (path, 'setslice', (-1, None, [g[0], g[1]]))]
        return ops
    ops += [(path, 'append', (g[0],)), (path, 'append', (g[1],)), (path, 'append', (over,)), (path, 'append', (None,)),
            (path, 'insert', (0, g[2])), (path, 'insert', (1, g[1])), (path, 'insert', (-1, g[0])),
            (path, 'insert', (99, g[2])), (path, 'insert', (0, over)),
            (path, 'extend', ([g[0], g[1]],)), (path, 'extend', ((g[2],),)), (path, 'extend', (ItArg([g[1], g[0]]),)),
            (path, 'extend', ([],)), (path, 'extend', ([g[0], over],)), (path, 'extend', ([g[0]] * 4,)),
            (path, 'setitem', (0, g[1])), (path, 'setitem', (-1, g[2])), (path, 'setitem', (99, g[0])),
            (path, 'setitem', (0, over)),
            (path, 'setslice', (0, 1, [g[0], g[1]])), (path, 'setslice', (0, 2, [])), (path, 'setslice', (1, 1, [g[2]])),
            (path, 'setslice', (None, None, [g[1], g[0], g[2], g[0]])), (path, 'setslice', (0, 1, [g[0], over])),
            (path, 'setslice', (0, 9, [g[0], g[1], g[2], g[0]])),
            (path, 'setslice', (-1, None, [g[2], g[1], g[0]])), (path, 'setslice', (0, -1, [g[1], g[2]])),
            (path, 'setslice', (-2, -1, [g[0]])), (path, 'delslice', (-1, None)),
            (path, 'setext', (None, None, 2, [g[2]])), (path, 'setext', (None, None, 2, [g[2], g[0]])),
            (path, 'setext', (None, None, 2, [g[2], g[0], g[1]])),
            (path, 'delitem', (0,)), (path, 'delitem', (-1,)), (path, 'delitem', (99,)),
            (path, 'delslice', (0, 1)), (path, 'delslice', (1, 9)), (path, 'delext', (None, None, 2)),
            ]
    if not isinstance(er, S.Enum):
        ops += [(path, 'remove', (g[0],)), (path, 'remove', (g[2],))]
    cap = model.sizer_capacity(sname, f)
    if cap == 255 and len(lst) < 2:
        ops.append((path, 'extend', ([g[0]] * 256,)))
    return ops


def op_text(op):
    path, name, args = op
    p = 'm'
    for step in path:
        if step[0] == 'f':
            p += '.' + step[1]
        elif step[0] == 'i':
            p += '[%d]' % step[1]
        else:
            p += '.' + step[1]
    if name == 'set':
        return '%s.%s = %r' % (p, args[0], args[1])
    if name == 'disc':
        return '%s.discriminator = %r' % (p, args[0])
    if name == 'setitem':
        return '%s[%r] = %r' % (p, args[0], args[1])
    if name == 'setslice':
        return '%s[%s:%s] = %r' % (p, _n(args[0]), _n(args[1]), args[2])
    if name == 'setext':
        return '%s[%s:%s:%s] = %r' % (p, _n(args[0]), _n(args[1]), _n(args[2]), args[3])
    if name == 'delitem':
        return 'del %s[%r]' % (p, args[0])
    if name == 'delslice':
        return 'del %s[%s:%s]' % (p, _n(args[0]), _n(args[1]))
    if name == 'delext':
        return 'del %s[%s:%s:%s]' % (p, _n(args[0]), _n(args[1]), _n(args[2]))
    if name == 'add':
        return '%s.add(%s)' % (p, ', '.join('%s=%r' % kv for kv in args[0]))
    return '%s.%s(%s)' % (p, name, ', '.join(repr(a) for a in args))


def _n(x):
    return '' if x is None else str(x)


def has_nonfixed_bytes(ref, t, seen=None):
    seen = set() if seen is None else seen
    if t in seen or t == 'bytes':
        return False
    seen.add(t)
    r = ref.resolve(t)
    if isinstance(r, (str, S.Enum)):
        return False
    if isinstance(r, S.Union):
        return any(has_nonfixed_bytes(ref, a.type, seen) for a in r.arms)
    for m in r.members:
        if m.type == 'bytes' and m.form != S.FIXED:
            return True
        if has_nonfixed_bytes(ref, m.type, seen):
            return True
    return False


def build_sparse(ref, model, t, tree, msg):
    """Assign only what differs from the default (so _fields holds just what was assigned)."""
    r = ref.resolve(t)
    if isinstance(r, S.Union):
        dflt = model.to_tree(t, model.default(t))
        armname, armval = tree
        if armname != dflt[0]:
            msg.discriminator = armname
        arm = [a for a in r.arms if a.name == armname][0]
        ar = ref.resolve(arm.type)
        adflt = model.to_tree(arm.type, model.default(arm.type))
        if armval != adflt or has_nonfixed_bytes(ref, arm.type):
            if isinstance(ar, (S.Struct, S.Union)):
                build_sparse(ref, model, arm.type, armval, getattr(msg, armname))
            else:
                setattr(msg, armname, armval)
        return msg
    dflt = model.to_tree(t, model.default(t))
    for f in ref.fields(r.name):
        if f.kind in ('counter', 'sizer'):
            continue
        val = tree[f.name]
        if val == dflt[f.name] and not (f.kind == 'bytes' and f.mode != 'fixed') and not (
                f.kind in ('comp', 'array') and f.type != 'bytes' and has_nonfixed_bytes(ref, f.type)):
            # (non-fixed bytes are always assigned: an unset one reads the str default, recorded finding F11 of C10)
            continue
        if f.kind in ('scalar', 'enum', 'bytes'):
            setattr(msg, f.name, val)
        elif f.kind == 'comp':
            build_sparse(ref, model, f.type, val, getattr(msg, f.name))
        elif f.kind == 'opt':
            er = ref.resolve(f.type)
            if isinstance(er, (S.Struct, S.Union)):
                setattr(msg, f.name, True)
                build_sparse(ref, model, f.type, val, getattr(msg, f.name))
            else:
                setattr(msg, f.name, val)
        elif f.kind == 'array':
            er = ref.resolve(f.type)
            arr = getattr(msg, f.name)
            if isinstance(er, (S.Struct, S.Union)):
                if f.mode == 'fixed':
                    edflt = model.to_tree(f.type, model.default(f.type))
                    for i, ev in enumerate(val):
                        if ev != edflt or has_nonfixed_bytes(ref, f.type):
                            build_sparse(ref, model, f.type, ev, arr[i])
                else:
                    for ev in val:
                        build_sparse(ref, model, f.type, ev, arr.add())
            else:
                arr[:] = list(val)
    return msg
