"""Schema-state exploration of the generated C++ full codec (C03, C05, C18, C19, C04/C++)."""
import os
import shutil
import traceback

from . import schema as S
from . import refmodel as R
from . import universe as U
from . import values as V
from . import toolchain as T
from . import sse
from . import cppdriver as D
from . import pyjudge

CPP_BATCH = 240
ENDIANS = (('little', '<'), ('big', '>'), ('native', '<'))


def value_cap(tier):
    return 20 if tier == 'quick' else 96


def full_generator_accepts(st):
    """The C++ full generator refuses several arrays per sizer by design."""
    return not any(sym[0] == 'ext2' for sym in st.symbols) if st.kind == 'struct' else True


def has_float(ref, t, seen=None):
    seen = seen or set()
    if t in seen:
        return False
    seen.add(t)
    if t == 'bytes':
        return False
    r = ref.resolve(t)
    if isinstance(r, str):
        return r in S.FLOATS
    if isinstance(r, S.Enum):
        return False
    if isinstance(r, S.Union):
        return any(has_float(ref, a.type, seen) for a in r.arms)
    return any(has_float(ref, m.type, seen) for m in r.members)


def cpp_alignof8(ref, t, memo=None):
    """alignof of the generated C++ full-codec object is 8 (it holds a 64-bit scalar or a std::vector)."""
    memo = {} if memo is None else memo
    if t == 'bytes':
        return False
    if t in memo:
        return memo[t]
    memo[t] = False
    r = ref.resolve(t)
    if isinstance(r, str):
        res = S.SCALARS[r][0] == 8
    elif isinstance(r, S.Enum):
        res = False
    elif isinstance(r, S.Union):
        res = any(cpp_alignof8(ref, a.type, memo) for a in r.arms)
    else:
        res = False
        for m in r.members:
            if m.form in (S.LIMITED, S.DYNAMIC, S.EXT, S.GREEDY):
                res = True
            elif cpp_alignof8(ref, m.type, memo):
                res = True
    memo[t] = res
    return res


def known_site(ref, top):
    """Schema sites of recorded (unrepaired) defects of the C++ full codec; see known_findings.json.
    F10: optional<T> is padded by the C++ alignof of T (prophy/detail/encoder.hpp, decoder.hpp); a composite
    T holding a std::vector (limited array) is 8-aligned in C++ but may be 4-aligned on the wire."""
    seen = set()

    def walk(t):
        if t in seen or t == 'bytes':
            return None
        seen.add(t)
        r = ref.resolve(t)
        if isinstance(r, (str, S.Enum)):
            return None
        if isinstance(r, S.Union):
            for a in r.arms:
                w = walk(a.type)
                if w:
                    return w
            return None
        for m in r.members:
            if m.form == S.OPT and m.type not in S.SCALARS:
                mr = ref.resolve(m.type)
                if isinstance(mr, (S.Struct, S.Union)) and cpp_alignof8(ref, m.type) and ref.layout(m.type).align < 8:
                    return 'optional-of-vector-holding-composite'
            w = walk(m.type)
            if w:
                return w
        return None

    return walk(top)


class CppPrepared(object):
    def __init__(self, states, defs, tops, ref, exe, outdir):
        self.states, self.defs, self.tops, self.ref, self.exe, self.outdir = states, defs, tops, ref, exe, outdir


def prepare_cpp(states, sanitize=True, with_python=False):
    """Compile a batch to a driver executable; bisect on failure.
    Returns (prepared list, rejected list of (state, stage, msg))."""
    prepared, rejected = [], []

    def go(sts):
        defs, tops = U.batch_defs(sts)
        text = S.render_prophy(defs)
        res = T.compile_text(text, outs=('cpp_full', 'python') if with_python else ('cpp_full',))
        stage = msg = None
        exe = None
        pymod = None
        if not res.ok:
            stage, msg = 'prophyc', '%s: %s' % (res.exc_type, str(res.exc)[:300])
        else:
            ref = R.Ref(defs)
            try:
                exe = D.build_driver(res.outdir, ref, tops, sanitize)
            except D.BuildFailure as e:
                stage, msg = 'c++', e.text[:1500]
        if stage:
            shutil.rmtree(res.outdir, ignore_errors=True)
            if len(sts) == 1:
                rejected.append((sts[0], stage, msg))
                return
            if len(rejected) >= 8:
                # enough culprits isolated in this batch: the rest of a failing group is set aside unbisected
                rejected.extend((st, stage, 'in a failing group, not bisected further: ' + msg) for st in sts)
                return
            mid = len(sts) // 2
            go(sts[:mid])
            go(sts[mid:])
            return
        if with_python:
            try:
                pymod = T.import_generated(res.files['m.py'])
            except Exception:       # noqa  (C12's business)
                pymod = None
        cp = CppPrepared(sts, defs, tops, ref, exe, res.outdir)
        cp.pymod = pymod
        prepared.append(cp)

    go(list(states))
    return prepared, rejected


def judge_case(ref, top, v, props, results, cid, spans_le, canon, viol, art, fixed_size, render_ok):
    """Judge the three endianness runs of one (state, value)."""
    enc = {}
    for ename, e in ENDIANS:
        r = results.get('%s.%s' % (cid, ename))
        data = canon[e]
        if r is None:
            viol('HARNESS', 'no-result', art(ename, data, 'driver produced no result'))
            continue
        if 'crash' in r:
            frame = D.crash_frame(r['crash'])
            for pid in ('C03', 'C05'):
                if pid in props:
                    viol(pid, 'cpp|crash|%s|%s' % (frame, pyjudge._shape_key(ref, top, None)),
                         art(ename, data, 'sanitizer abort on canonical input: %s' % r['crash'][-1500:]))
            continue
        if 'exc' in r:
            if 'C03' in props:
                viol('C03', 'cpp|decode-exc|%s|%s' % (r['exc'], pyjudge._shape_key(ref, top, None)),
                     art(ename, data, 'decode threw %s' % r['exc']))
            continue
        if r.get('ok') != '1':
            if 'C03' in props:
                viol('C03', 'cpp|decode-rejects-canonical|%s' % pyjudge._shape_key(ref, top, None),
                     art(ename, data, 'C++ decode<%s> returned false on the canonical bytes' % ename))
            continue
        # ---- C05 size observations
        gbs = r.get('gbs', '')
        if 'C05' in props:
            why = size_consistency(r, fixed_size)
            if why:
                viol('C05', 'cpp|%s|%s' % (why[0], pyjudge._shape_key(ref, top, None)), art(ename, data, why[1]))
        if 'C04' in props:
            ebs = int(r.get('ebs', '0'))
            want = fixed_size if fixed_size is not None else -1
            if ebs != want:
                viol('C04', 'cpp|encoded_byte_size|exp=%d|got=%d|%s' % (want, ebs, pyjudge._shape_key(ref, top, None)),
                     art(ename, data, 'encoded_byte_size %d, rules give %d' % (ebs, want)))
        vhex = r.get('vhex')
        if vhex is None:
            if 'C03' in props and not gbs.startswith('ABSURD') and 'pn' in r and int(r['pn']) > int(gbs):
                viol('C03', 'cpp|reencode|vector-sized-too-short|d=%+d|%s' % (int(gbs) - int(r['pn']), pyjudge._shape_key(ref, top, None)),
                     art(ename, data, 'encode<%s>() would return a %s-byte vector while the encoder writes %s bytes' % (
                         ename, gbs, r['pn'])))
            continue
        got = bytes.fromhex(vhex) if vhex != '-' else b''
        enc[ename] = got
        if 'C03' in props and got != data:
            viol('C03', 'cpp|reencode|' + sse.diagnose(ref, top, data, spans_le if e == '<' else spans_le, got),
                 art(ename, data, 'C++ encode<%s>() of the decoded object returns %s' % (ename, got.hex())))
        if 'C18' in props and render_ok is not None and ename == 'little':
            text = bytes.fromhex(r['print']).decode('latin-1') if r.get('print', '-') != '-' else ''
            if text != render_ok:
                viol('C18', 'cpp|print|' + render_diff_key(render_ok, text),
                     art(ename, data, 'C++ print():\n%s\nexpected:\n%s' % (text, render_ok)))
    if 'C19' in props and len(enc) == 3:
        if enc['native'] != enc['little']:
            viol('C19', 'cpp|native-differs-from-host-order', art('native', canon['<'], 'encode() != encode<little>()'))
        if len(enc['little']) != len(enc['big']):
            viol('C19', 'cpp|length', art('big', canon['>'], 'little/big lengths differ'))
        elif R.differs_only_in_padding(spans_le, canon['<'], enc['little']):
            why = R.scalar_mirror_ok(spans_le, enc['little'], enc['big'])
            if why:
                viol('C19', 'cpp|' + why.split(' at ')[0].split(' .')[0], art('big', canon['>'], why))


def reuse_differs(r, rf):
    """None or (kind, text): result r of decoding into a used object against rf of a fresh object."""
    if 'crash' in r:
        return ('crash|' + D.crash_frame(r['crash']), r['crash'][-1200:])
    if 'crash' in rf or 'exc' in rf:
        return None         # judged on the fresh case
    for k in ('ok', 'exc', 'gbs', 'pn', 'vhex', 'print'):
        if r.get(k) != rf.get(k):
            return ('%s-differs-from-fresh-object' % k, 'decode into a used object: %s=%s, into a fresh object: %s=%s' % (
                k, str(r.get(k))[:200], k, str(rf.get(k))[:200]))
    return None


def judge_built(ref, top, r, props, ename, data, spans, render_ok):
    """Result of encoding / printing an object that was built through its public members (op build)."""
    out = []
    shape = pyjudge._shape_key(ref, top, None)
    if 'crash' in r:
        for pid in ('C03', 'C18'):
            if pid in props:
                out.append((pid, 'cpp|built|crash|%s|%s' % (D.crash_frame(r['crash']), shape),
                            'sanitizer abort on an object built through its members: %s' % r['crash'][-1500:]))
        return out
    vhex = r.get('vhex')
    if 'C03' in props:
        gbs = r.get('gbs', '')
        if vhex is None:
            if not gbs.startswith('ABSURD') and 'pn' in r and int(r['pn']) != int(gbs):
                out.append(('C03', 'cpp|built-encode|vector-size-differs-from-written|d=%+d|%s' % (int(gbs) - int(r['pn']), shape),
                            'encode<%s>() of the built object would return a %s-byte vector while the encoder writes %s bytes' % (
                                ename, gbs, r['pn'])))
        else:
            got = bytes.fromhex(vhex) if vhex != '-' else b''
            if got != data:
                out.append(('C03', 'cpp|built-encode|' + sse.diagnose(ref, top, data, spans, got),
                            'C++ encode<%s>() of the object built through its members returns %s' % (ename, got.hex())))
    if 'C18' in props and render_ok is not None and ename == 'little' and 'print' in r:
        text = bytes.fromhex(r['print']).decode('latin-1') if r.get('print', '-') != '-' else ''
        if text != render_ok:
            out.append(('C18', 'cpp|built-print|' + render_diff_key(render_ok, text),
                        'C++ print() of the built object:\n%s\nexpected:\n%s' % (text, render_ok)))
    return out


def size_consistency(r, fixed_size):
    gbs = r.get('gbs', '')
    if gbs.startswith('ABSURD'):
        return ('gbs-absurd', 'get_byte_size() returned %s' % gbs)
    gbs = int(gbs)
    pn = int(r['pn'])
    if r.get('under') == '1':
        return ('write-before-buffer', 'encode(void*) wrote before the buffer')
    if pn != gbs:
        return ('gbs!=written|d=%+d' % (gbs - pn), 'get_byte_size()=%d but encode(void*) wrote %d bytes (last byte touched %s)' % (
            gbs, pn, r.get('last')))
    if r.get('over') == '1':
        return ('write-past-gbs', 'encode(void*) touched byte %s beyond get_byte_size()=%d' % (r.get('last'), gbs))
    if 'vn' in r and int(r['vn']) != gbs:
        return ('gbs!=vector', 'encode() vector has %s bytes, get_byte_size()=%d' % (r['vn'], gbs))
    if 'pn2' in r and int(r['pn2']) != gbs:
        return ('gbs!=written2', 'second encode wrote %s' % r['pn2'])
    if fixed_size is not None and gbs != fixed_size:
        return ('gbs!=encoded_byte_size', 'get_byte_size()=%d for a fixed type of size %d' % (gbs, fixed_size))
    return None


def render_diff_key(exp, got):
    el, gl = exp.splitlines(), got.splitlines()
    for i in range(max(len(el), len(gl))):
        a = el[i] if i < len(el) else '<none>'
        b = gl[i] if i < len(gl) else '<none>'
        if a != b:
            ka = 'bytes' if "'" in a else ('block' if a.rstrip().endswith('{') or a.strip() == '}' else 'scalar')
            kb = 'bytes' if "'" in b else ('block' if b.rstrip().endswith('{') or b.strip() == '}' else 'scalar')
            prev = el[i - 1] if i else ''
            pk = 'after-bytes' if "'" in prev else 'after-other'
            return 'exp=%s|got=%s|%s' % (ka, kb, pk)
    return 'same?'


def judge_batch(job):
    states, tier, props, seed, ops = job[:5]
    vcap = job[5] if len(job) > 5 else value_cap(tier)
    vmode = job[6] if len(job) > 6 else None
    T.setup_repo()
    out = {'viol': [], 'states': 0, 'values': 0, 'exec': 0, 'rejected': [], 'samples': [], 'skipped_design': 0,
           'excluded_greedy': 0, 'nontrivial': 0, 'op_cases': {}}
    try:
        accepted = [st for st in states if full_generator_accepts(st)]
        out['skipped_design'] = len(states) - len(accepted)
        prepared, rejected = prepare_cpp(accepted, with_python='C03' in props)
        for st, stage, msg in rejected:
            out['rejected'].append((st.key, stage, msg))
        seen = {}

        site_of = {}

        def viol(pid, key, a):
            if a is not None and a.get('state') in site_of and site_of[a['state']]:
                key = 'cpp|site=%s' % site_of[a['state']]
            k = (pid, key)
            seen[k] = seen.get(k, 0) + 1
            out['viol'].append((pid, key, a if seen[k] <= 2 else None))

        for prep in prepared:
            try:
                ref = prep.ref
                vg = V.Values(ref, tier)
                cases = []
                meta = {}
                reuse_prime = {}
                batch_cache = {}
                for si, (st, top) in enumerate(zip(prep.states, prep.tops)):
                    out['states'] += 1
                    site_of[st.key] = known_site(ref, top)
                    if site_of[st.key]:
                        out['known_site_states'] = out.get('known_site_states', 0) + 1
                    if vmode == 'text':
                        from . import textjudge
                        vals = textjudge.text_values(ref, top, tier)
                    else:
                        vals, _ = vg.enumerate(top, vcap)
                    vals = vals[:max(vcap, 1) + 4] if vcap <= 2 else vals
                    lay = ref.layout(top)
                    prev_canon = None
                    for vi, v in enumerate(vals):
                        le, spans = ref.encode(top, v, '<')
                        be, _ = ref.encode(top, v, '>')
                        if pyjudge.unaligned_greedy_tail(ref, top, spans) and set(props) != set(['C05']):
                            # (the documented greedy exception concerns decode round trips; size agreement of
                            # whatever was decoded is judged for C05 all the same)
                            out['excluded_greedy'] += 1
                            continue
                        cid = '%d.%d' % (si, vi)
                        meta[cid] = (st, top, v, {'<': le, '>': be}, spans)
                        out['values'] += 1
                        if sse.nontrivial(spans):
                            out['nontrivial'] += 1
                        this_canon = {'<': le, '>': be}
                        for ename, e in ENDIANS:
                            cases.append(('%s.%s' % (cid, ename), top, ename, 'dec', le if e == '<' else be))
                            if ename != 'native':
                                for op in ops:
                                    if op == 'fresh' and vi:
                                        continue        # one default-constructed object per type and byte order
                                    if op == 'reuse':
                                        # this value decoded into the object that has just held the previous value
                                        if prev_canon is None:
                                            continue
                                        cases.append(('%s.%s.reuse' % (cid, ename), top, ename, 'reuse',
                                                      (prev_canon[e], le if e == '<' else be)))
                                        reuse_prime[(cid, ename)] = prev_canon[e]
                                        out['op_cases'][op] = out['op_cases'].get(op, 0) + 1
                                        continue
                                    if op != 'build' and 'C05' not in props:
                                        continue
                                    cases.append(('%s.%s.%s' % (cid, ename, op), top, ename, op,
                                                  D.value_words(ref, top, v) if op == 'build' else le if e == '<' else be))
                                    out['op_cases'][op] = out['op_cases'].get(op, 0) + 1
                        if getattr(prep, 'pymod', None) is not None:
                            # what the Python codec wrote, where it differs from the documented bytes
                            for ename, e in ENDIANS[:2]:
                                try:
                                    pyb = T.build(ref, top, v, getattr(prep.pymod, top)()).encode(e)
                                except Exception:       # noqa  (C01's business)
                                    continue
                                if pyb != (le if e == '<' else be):
                                    cases.append(('%s.%s.py' % (cid, ename), top, ename, 'dec', pyb))
                                    meta.setdefault('py', {})[(cid, ename)] = pyb
                        prev_canon = this_canon
                results = D.run_driver(prep.exe, cases)
                out['exec'] += len(cases)
                for cid, mv in meta.items():
                    if cid == 'py':
                        continue
                    st, top, v, canon, spans = mv
                    lay = ref.layout(top)
                    fixed_size = lay.size if lay.kind == R.K_FIXED else None
                    render_ok = None
                    if 'C18' in props and not has_float(ref, top):
                        render_ok = ref.render(top, v)

                    def art(ename, data, detail, st=st, top=top, v=v, cid=cid):
                        a = sse.artefact_for(st, top, ref, prep.defs, v, ename, data, '', detail)
                        a['side'] = 'cpp'
                        # the whole file the type was generated in (for failures that need an earlier definition of the run)
                        if 'ctx' not in batch_cache:
                            batch_cache['ctx'] = {'schema': S.render_prophy(prep.defs), 'defs': S.defs_to_json(prep.defs)}
                        a['batch'] = dict(batch_cache['ctx'], top=top)
                        # the cases of the same type run earlier in the same process (for order-dependent failures)
                        a['history'] = [[c[2], c[3], D._hex(c[4])] for c in cases if c[1] == top and c[0].split('.')[0] == cid.split('.')[0]
                                        and int(c[0].split('.')[1]) < int(cid.split('.')[1])][-12:]
                        return a
                    judge_case(ref, top, v, props, results, cid, spans, canon, viol, art, fixed_size, render_ok)
                    for (pcid, ename), pyb in meta.get('py', {}).items():
                        if pcid != cid:
                            continue
                        r = results.get('%s.%s.py' % (cid, ename)) or {}
                        if r.get('ok') != '1':
                            viol('C03', 'cpp|rejects-python-bytes|%s' % pyjudge._shape_key(ref, top, None),
                                 art(ename, pyb, 'C++ decode<%s> does not accept what the Python codec encoded (%s)' % (
                                     ename, 'crash' if 'crash' in r else r.get('exc', 'false'))))
                        elif r.get('vhex') is not None and bytes.fromhex(r['vhex'] if r['vhex'] != '-' else '') != pyb:
                            viol('C03', 'cpp|reencodes-python-bytes-differently|%s' % pyjudge._shape_key(ref, top, None),
                                 art(ename, pyb, 'C++ re-encodes the Python bytes as %s' % r['vhex']))
                    if 'C05' in props:
                        for ename, e in ENDIANS[:2]:
                            for op in ops:
                                r = results.get('%s.%s.%s' % (cid, ename, op))
                                if r is None:
                                    continue
                                if 'crash' in r:
                                    viol('C05', 'cpp|%s|crash|%s|%s' % (op, D.crash_frame(r['crash']),
                                                                       pyjudge._shape_key(ref, top, None)),
                                         dict(art(ename, canon[e], 'sanitizer abort after %s: %s' % (op, r['crash'][-1500:])), op=op))
                                    continue
                                if r.get('ok') != '1' or 'exc' in r:
                                    continue
                                why = size_consistency(r, fixed_size)
                                if why:
                                    viol('C05', 'cpp|%s|%s|%s' % (op, why[0], pyjudge._shape_key(ref, top, None)),
                                         dict(art(ename, canon[e], 'after %s: %s' % (op, why[1])), op=op))
                    if 'reuse' in ops:
                        for ename, e in ENDIANS[:2]:
                            r, rf = results.get('%s.%s.reuse' % (cid, ename)), results.get('%s.%s' % (cid, ename))
                            if r is None or rf is None:
                                continue
                            why = reuse_differs(r, rf)
                            if why:
                                for pid in props:
                                    if pid in ('C03', 'C18') and (pid == 'C18') == why[0].startswith('print'):
                                        viol(pid, 'cpp|reuse|%s|%s' % (why[0], pyjudge._shape_key(ref, top, None)),
                                             dict(art(ename, canon[e], why[1]), op='reuse', prime=reuse_prime[(cid, ename)].hex()))
                    if 'build' in ops:
                        # the same value assigned through the public members (no decoder involved)
                        for ename, e in ENDIANS[:2]:
                            r = results.get('%s.%s.build' % (cid, ename))
                            if r is None:
                                continue
                            for pid, key, detail in judge_built(ref, top, r, props, ename, canon[e], spans, render_ok):
                                viol(pid, key, dict(art(ename, canon[e], detail), op='build'))
                    if len(out['samples']) < 2:
                        r = results.get(cid + '.little') or {}
                        out['samples'].append({'state': st.key, 'value': repr(v)[:160], 'little': canon['<'].hex(),
                                               'driver': {k: r.get(k) for k in ('ok', 'gbs', 'pn', 'vn', 'ebs')}})
            finally:
                shutil.rmtree(prep.outdir, ignore_errors=True)
    except Exception:       # noqa
        out['harness_error'] = traceback.format_exc()
    return out


def run_cpp(ctx, props, ops=(), vcap=None, states=None, vmode=None):
    from .run import HarnessError
    from . import docexamples
    n, problems = docexamples.selftest(T.REPO)
    if problems:
        raise HarnessError('oracle self-test failed: ' + '; '.join(problems[:3]))
    if states is None:
        states = list(U.all_states(ctx.tier, ctx.seed, coarse=True))
    if ctx.seed:
        k = ctx.seed % max(1, len(states))
        states = states[k:] + states[:k]
    jobs = [(b, ctx.tier, tuple(props), ctx.seed, tuple(ops), vcap or value_cap(ctx.tier), vmode)
            for b in U.batches(states, CPP_BATCH)]
    rejected = []
    skipped = 0
    cstates = 0
    for res in ctx.pmap(judge_batch, jobs):
        if 'harness_error' in res:
            raise HarnessError(res['harness_error'])
        cstates += res['states']
        ctx.cov['states'] += res['values']
        ctx.cov['transitions'] += res['exec']
        ctx.cov['traces_validated_against_impl'] += res['exec']
        ctx.cov['evaluations'] += res['exec']
        ctx.cov['distinct_nontrivial'] += res['nontrivial']
        ctx.cov['cpp_excluded_greedy'] = ctx.cov.get('cpp_excluded_greedy', 0) + res['excluded_greedy']
        for op, n in res.get('op_cases', {}).items():
            ctx.cov.setdefault('cases_per_mutation_op', {})
            ctx.cov['cases_per_mutation_op'][op] = ctx.cov['cases_per_mutation_op'].get(op, 0) + n
        skipped += res['skipped_design']
        rejected += res['rejected']
        for s in res['samples']:
            ctx.sample(s)
        for pid, key, art in res['viol']:
            if pid == 'HARNESS':
                raise HarnessError('driver protocol: %s %s' % (key, art))
            if pid != ctx.pid:
                continue
            ctx.violation_counts[key] = ctx.violation_counts.get(key, 0) + 1
            if art is not None and len(ctx.violations.setdefault(key, [])) < 3:
                ctx.violations[key].append(art)
            else:
                ctx.violations.setdefault(key, [])
    for key in [k for k, v in ctx.violations.items() if not v]:
        del ctx.violations[key]
    for op in ops:
        if not ctx.cov.get('cases_per_mutation_op', {}).get(op):
            raise HarnessError('vacuous: no case ran the mutation op %r' % op)
    ctx.cov['cpp_schema_states'] = cstates
    ctx.cov['cpp_states_refused_by_design'] = skipped
    ctx.cov['cpp_rejected_states'] = len(rejected)
    ctx.cov['cpp_rejected_samples'] = [list(r) for r in rejected[:4]]
    if not ctx.cov['rule']:
        ctx.cov['rule'] = ''
    ctx.cov['rule'] += (' C++: states = (schema state, value) pairs fed as canonical bytes to the ASan+UBSan driver built from '
                        'prophyc --cpp_full_out and the shipped headers; transitions = driver cases (decode + size '
                        'observations + three encodes + print) per endianness and mutation op.')
    return rejected


def replay(art, pid):
    """Re-run one recorded C++ case alone; if it passes alone, in the file it was found in."""
    why = _replay(art, pid)
    if why is None and art.get('batch'):
        b = art['batch']
        why = _replay(dict(art, schema=b['schema'], defs=b['defs'], top=b['top'], batch=None), pid)
        if why:
            why = 'only as part of the whole generated file (an earlier definition matters):\n' + why[-3000:]
    return why


def _replay(art, pid):
    defs = S.defs_from_json(art['defs'])
    ref = R.Ref(defs)
    res = T.compile_text(art['schema'], outs=('cpp_full',))
    if not res.ok:
        return 'prophyc rejects: %s' % res.exc
    try:
        try:
            exe = D.build_driver(res.outdir, ref, [art['top']])
        except D.BuildFailure as e:
            return 'generated C++ does not compile:\n%s' % e.text[:1500]
        v = V.tree_from_json(art['value'])
        top = art['top']
        le, spans = ref.encode(top, v, '<')
        be, _ = ref.encode(top, v, '>')
        canon = {'<': le, '>': be}
        cases = []
        for hi, (hen, hop, hhex) in enumerate(art.get('history') or []):
            hhex = hhex.replace('-', '')
            cases.append(('h%d' % hi, top, hen, hop, tuple(bytes.fromhex(h) for h in hhex.split('/')) if '/' in hhex
                          else bytes.fromhex(hhex)))
        ops = [art['op']] if art.get('op') else []
        for ename, e in ENDIANS:
            cases.append(('0.0.%s' % ename, top, ename, 'dec', canon[e]))
            for op in ops:
                if op == 'reuse':
                    if ename == art.get('endian'):
                        cases.append(('0.0.%s.reuse' % ename, top, ename, 'reuse', (bytes.fromhex(art['prime']), canon[e])))
                    continue
                cases.append(('0.0.%s.%s' % (ename, op), top, ename, op,
                              D.value_words(ref, top, v) if op == 'build' else canon[e]))
        pybytes = None
        if 'Python' in art.get('detail', '') and art.get('expected'):
            # the case fed what the Python codec wrote: decode exactly those bytes
            pybytes = bytes.fromhex(art['expected'])
            en = art['endian'] if art['endian'] in ('little', 'big') else 'little'
            cases.append(('py', top, en, 'dec', pybytes))
        results = D.run_driver(exe, cases)
        found = []
        if pybytes is not None:
            r = results.get('py') or {}
            if r.get('ok') != '1':
                found.append(('rejects-python-bytes', 'C++ does not accept %s' % pybytes.hex()))
            elif r.get('vhex') is not None and bytes.fromhex(r['vhex'] if r['vhex'] != '-' else '') != pybytes:
                found.append(('reencodes-python-bytes-differently', r['vhex']))

        def viol(p, key, a):
            if p == pid:
                found.append((key, a))
        lay = ref.layout(top)
        fixed_size = lay.size if lay.kind == R.K_FIXED else None
        render_ok = ref.render(top, v) if not has_float(ref, top) else None
        judge_case(ref, top, v, (pid,), results, '0.0', spans, canon, viol, lambda en, d, detail: detail, fixed_size,
                   render_ok)
        for ename, e in ENDIANS[:2]:
            for op in ops:
                r = results.get('0.0.%s.%s' % (ename, op))
                if r and op == 'reuse':
                    why = reuse_differs(r, results.get('0.0.%s' % ename) or {})
                    if why:
                        found.append(why)
                elif r and op == 'build' and pid != 'C05':
                    found += [(k, d) for p_, k, d in judge_built(ref, top, r, (pid,), ename, canon[e], spans, render_ok)]
                elif r and 'crash' in r:
                    found.append(('crash', r['crash'][-800:]))
                elif r and r.get('ok') == '1' and pid == 'C05':
                    why = size_consistency(r, fixed_size)
                    if why:
                        found.append(why)
        if found:
            return 'schema:\n%s\nvalue %r\nlittle %s\n%s' % (art['schema'], v, le.hex(),
                                                            '\n'.join('%s: %s' % f for f in found[:4]))
        return None
    finally:
        shutil.rmtree(res.outdir, ignore_errors=True)
