"""Bounded value universe V(T) of a message type (DESIGN 3.3).

Shapes (array lengths, optional presence, union arm, enumerator, nested
representative) are enumerated as a full product; scalars are filled by
pattern A (position coded: every scalar of a value gets different,
non-palindromic bytes) or pattern B (extremes)."""
import itertools
import struct as _struct

from . import schema as S
from . import refmodel as R

REPS = ('A', 'B', 'min')


class Filler(object):
    """Produces scalar values; k counts scalars produced so far in this value."""

    def __init__(self, pattern):
        self.pattern = pattern
        self.k = 0

    def scalar(self, t):
        k = self.k
        self.k += 1
        size = S.SCALARS[t][0]
        if t in S.FLOATS:
            if self.pattern == 'A':
                return (k % 50) + 1.5 if k % 2 == 0 else -((k % 50) + 0.25)
            return [3.4028234663852886e38, -1.0, 0.0, 2.0 ** -126][k % 4] if t == 'float' else [1.7976931348623157e308, -1.0, 0.0, 5e-324][k % 4]
        lo, hi = S.INT_RANGE[t]
        if self.pattern == 'A':
            if size == 1:
                return (k * 7 + 1) % 127 + 1
            base = (k % 7) + 1
            raw = bytes(bytearray(((base << 4) | (i + 1)) for i in range(size)))   # 0x11 0x12 0x13 ...
            return _struct.unpack('<' + S.SCALARS[t][1], raw)[0]
        ext = [hi, lo, -1 if lo < 0 else hi - 1, 0]
        return ext[k % 4]

    def bytes_(self, n):
        k = self.k
        self.k += 1
        return bytes(bytearray(((k * 16 + i * 3 + 0x41) % 256) for i in range(n)))


def array_lengths(esize, tier):
    """Residue-complete lengths for alignment 8 (+1 beyond)."""
    if esize <= 1:
        return list(range(0, 10)) if tier == 'thorough' else [0, 1, 2, 3, 4, 5, 7, 8]
    if esize == 2:
        return [0, 1, 2, 3, 4, 5] if tier == 'thorough' else [0, 1, 2, 3, 4]
    if esize == 4:
        return [0, 1, 2, 3]
    return [0, 1, 2]


class Values(object):
    def __init__(self, ref, tier='quick'):
        self.ref = ref
        self.tier = tier
        self._dims = {}

    # dimensions of a struct: [(names tuple, [shape, ...])]
    def dims(self, sname):
        if sname in self._dims:
            return self._dims[sname]
        ref = self.ref
        fields = ref.fields(sname)
        dims = []
        done = set()
        for f in fields:
            if f.kind in ('counter', 'sizer') or f.name in done:
                continue
            if f.kind in ('array', 'bytes') and f.mode == 'counted' and not f.counter.startswith('num_of_'):
                group = [g for g in fields if g.kind in ('array', 'bytes') and g.counter == f.counter]
                esize = min(self._esize(g) for g in group)
                sizer = [g for g in fields if g.name == f.counter][0]
                lens = array_lengths(esize, self.tier)
                dims.append((tuple(g.name for g in group), lens))
                done.update(g.name for g in group)
                continue
            dims.append(((f.name,), self.field_shapes(f)))
            done.add(f.name)
        self._dims[sname] = dims
        return dims

    def _esize(self, f):
        if f.kind == 'bytes':
            return 1
        return max(1, self.ref.layout(f.type).size)

    def field_shapes(self, f):
        ref = self.ref
        if f.kind == 'scalar':
            return [None]
        if f.kind == 'enum':
            return [n for n, _ in ref.resolve(f.type).members]
        if f.kind == 'comp':
            return self.type_shapes(f.type)
        if f.kind == 'opt':
            return [None] + [('some', s) for s in self.type_shapes(f.type)[:2]]
        if f.kind in ('bytes', 'array'):
            if f.mode == 'fixed':
                return [f.n]
            if f.mode == 'limited':
                return sorted(set([0, 1, f.n]))
            lay = ref.layout(f.type) if f.kind == 'array' else None
            if lay is not None and not isinstance(ref.resolve(f.type), (str, S.Enum)):
                return [0, 1, 2, 3] if lay.kind != R.K_FIXED or lay.size % 8 else [0, 1, 2]
            return array_lengths(self._esize(f), self.tier)
        raise ValueError(f.kind)

    def type_shapes(self, t):
        """Shapes of one value of type t used as a member / element."""
        r = self.ref.resolve(t)
        if isinstance(r, str):
            return [None]
        if isinstance(r, S.Enum):
            return [n for n, _ in r.members]
        if isinstance(r, S.Union):
            return [('arm', a.name) for a in r.arms]
        return list(REPS)

    # ---------------------------------------------------------------- making
    def make_type(self, t, shape, fl):
        ref = self.ref
        r = ref.resolve(t)
        if isinstance(r, str):
            return fl.scalar(r)
        if isinstance(r, S.Enum):
            return shape if shape is not None else r.members[0][0]
        if isinstance(r, S.Union):
            if shape is None or shape in REPS:
                idx = {'A': 0, 'B': -1, 'min': len(r.arms) // 2, None: 0}[shape]
                arm = r.arms[idx]
            else:
                arm = [a for a in r.arms if a.name == shape[1]][0]
            sub = self.type_shapes(arm.type)
            return (arm.name, self.make_type(arm.type, sub[0], fl))
        return self.make_rep(r.name, shape or 'A', fl)

    def make_rep(self, sname, which, fl):
        choice = []
        for names, shapes in self.dims(sname):
            if which == 'min':
                choice.append(shapes[0])
            elif which == 'A':
                choice.append(shapes[1 % len(shapes)])
            else:
                choice.append(shapes[-1])
        return self.make_struct(sname, choice, fl)

    def make_struct(self, sname, choice, fl):
        ref = self.ref
        fields = {f.name: f for f in ref.fields(sname)}
        v = {}
        for (names, _), shape in zip(self.dims(sname), choice):
            for name in names:
                v[name] = self.make_field(fields[name], shape, fl)
        return v

    def make_field(self, f, shape, fl):
        if f.kind == 'scalar':
            return fl.scalar(f.type)
        if f.kind in ('enum', 'comp'):
            return self.make_type(f.type, shape, fl)
        if f.kind == 'opt':
            if shape is None:
                return None
            return self.make_type(f.type, shape[1], fl)
        if f.kind == 'bytes':
            return fl.bytes_(shape)
        if f.kind == 'array':
            sub = self.type_shapes(f.type)
            return [self.make_type(f.type, sub[(i + 1) % len(sub)], fl) for i in range(shape)]
        raise ValueError(f.kind)

    # ------------------------------------------------------------- enumerate
    def enumerate(self, t, cap):
        """All values of V(t) (shape product x pattern A, plus extremes with pattern B).
        Returns (list of trees, capped?)."""
        ref = self.ref
        r = ref.resolve(t)
        if isinstance(r, S.Union):
            out = []
            for a in r.arms:
                for sh in self.type_shapes(a.type):
                    for pat in ('A', 'B'):
                        out.append((a.name, self.make_type(a.type, sh, Filler(pat))))
            return _dedupe(out)[:cap], False
        dims = self.dims(r.name)
        sizes = [len(s) for _, s in dims]
        total = 1
        for n in sizes:
            total *= n
        rows = []
        capped = False
        if total <= cap:
            rows = list(itertools.product(*[s for _, s in dims]))
        else:
            capped = True
            seen = set()

            def add(row):
                key = repr(row)
                if key not in seen:
                    seen.add(key)
                    rows.append(row)
            width = max(sizes) if sizes else 1
            for i in range(width):
                add(tuple(s[i % len(s)] for _, s in dims))
            for j, (_, shapes) in enumerate(dims):
                for base in (1, 0, -1):
                    for sh in shapes:
                        row = [s[base % len(s)] if base >= 0 else s[-1] for _, s in dims]
                        row[j] = sh
                        add(tuple(row))
            # pairs of the two last dimensions (dynamic tails interact most)
            if len(dims) >= 2:
                for a in dims[-2][1]:
                    for b in dims[-1][1]:
                        row = [s[1 % len(s)] for _, s in dims]
                        row[-2], row[-1] = a, b
                        add(tuple(row))
            rows = rows[:cap]
        out = [self.make_struct(r.name, row, Filler('A')) for row in rows]
        # extremes: pattern B on the diagonal rows
        width = max(sizes) if sizes else 1
        for i in range(min(width, 4)):
            row = tuple(s[i % len(s)] for _, s in dims)
            out.append(self.make_struct(r.name, row, Filler('B')))
        return _dedupe(out), capped


def _dedupe(trees):
    seen, out = set(), []
    for t in trees:
        k = repr(t)
        if k not in seen:
            seen.add(k)
            out.append(t)
    return out


def greedy_tail_aligned(ref, t, enc_len_unpadded_check=None):
    """Placeholder for documentation: see ends_aligned()."""


def has_greedy(ref, t):
    r = ref.resolve(t)
    return isinstance(r, S.Struct) and ref.layout(t).kind == R.K_UNLIMITED


def tree_to_json(v):
    """Value tree -> JSON-able (bytes as {'hex':..}, tuples as {'arm':..})."""
    if isinstance(v, dict):
        return {k: tree_to_json(x) for k, x in v.items()}
    if isinstance(v, tuple):
        return {'@arm': v[0], 'value': tree_to_json(v[1])}
    if isinstance(v, list):
        return [tree_to_json(x) for x in v]
    if isinstance(v, (bytes, bytearray)):
        return {'@hex': bytes(v).hex()}
    if isinstance(v, float):
        return {'@float': repr(v)}
    return v


def tree_from_json(v):
    if isinstance(v, dict):
        if '@arm' in v:
            return (v['@arm'], tree_from_json(v['value']))
        if '@hex' in v:
            return bytes.fromhex(v['@hex'])
        if '@float' in v:
            return float(v['@float'])
        return {k: tree_from_json(x) for k, x in v.items()}
    if isinstance(v, list):
        return [tree_from_json(x) for x in v]
    return v
