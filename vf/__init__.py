"""Bounded exhaustive exploration ("model checking" family) of aurzenligl/prophy.

Everything here is harness code; the code under test is taken from VERIF_REPO
(default /repo) and is never imported before vf.toolchain.setup_repo() ran.
"""
