"""Adapters to the code under test: prophyc in-process, import of generated
Python, build/observe of message objects through the public API only."""
import io
import os
import shutil
import sys
import tempfile
import contextlib

from . import schema as S
from . import refmodel as R

REPO = os.environ.get('VERIF_REPO', '/repo')
_setup_done = False


def setup_repo():
    """Make `import prophy` / `import prophyc` resolve to the tree under test."""
    global _setup_done
    if _setup_done:
        return
    repo = os.path.abspath(REPO)
    sys.path[:] = [p for p in sys.path if os.path.abspath(p or '.') != repo]
    sys.path.insert(0, repo)
    for name in list(sys.modules):
        if name == 'prophy' or name.startswith('prophy.') or name == 'prophyc' or name.startswith('prophyc.'):
            del sys.modules[name]
    import prophy
    import prophyc
    for mod in (prophy, prophyc):
        got = os.path.dirname(os.path.dirname(os.path.abspath(mod.__file__)))
        if got != repo:
            raise RuntimeError('HARNESS-ERROR: %s imported from %s, expected %s' % (mod.__name__, got, repo))
    _setup_done = True


_TMPROOT = None


def tmproot():
    """Per-process scratch dir outside /repo and /verif, removed at exit."""
    global _TMPROOT
    if _TMPROOT is None or not os.path.isdir(_TMPROOT) or _TMPROOT_PID != os.getpid():
        _make_tmproot()
    return _TMPROOT


_TMPROOT_PID = None


def _make_tmproot():
    global _TMPROOT, _TMPROOT_PID
    import atexit
    base = os.environ.get('VERIF_TMP') or tempfile.gettempdir()
    _TMPROOT = tempfile.mkdtemp(prefix='vf-%d-' % os.getpid(), dir=base)
    _TMPROOT_PID = os.getpid()
    pid = os.getpid()
    path = _TMPROOT

    def cleanup():
        if os.getpid() == pid:
            shutil.rmtree(path, ignore_errors=True)
    atexit.register(cleanup)


def fresh_dir(prefix='d'):
    return tempfile.mkdtemp(prefix=prefix + '-', dir=tmproot())


class ProphycResult(object):
    """Outcome of one prophyc.main() call."""
    __slots__ = ('ok', 'nodes', 'exc', 'exc_type', 'stderr', 'outdir', 'files')

    def __init__(self):
        self.ok = False
        self.nodes = None
        self.exc = None
        self.exc_type = None
        self.stderr = ''
        self.outdir = None
        self.files = {}


def run_prophyc(argv, capture=True):
    """Call the real prophyc.main(argv) in-process.  Any exception is returned, not raised."""
    setup_repo()
    import prophyc
    res = ProphycResult()
    err = io.StringIO()
    out = io.StringIO()
    try:
        if capture:
            with contextlib.redirect_stderr(err), contextlib.redirect_stdout(out):
                res.nodes = prophyc.main(list(argv))
        else:
            res.nodes = prophyc.main(list(argv))
        res.ok = True
    except SystemExit as e:       # argparse --help etc.
        res.exc, res.exc_type = e, 'SystemExit'
    except BaseException as e:    # noqa
        if isinstance(e, KeyboardInterrupt):
            raise
        res.exc, res.exc_type = e, type(e).__name__
    res.stderr = err.getvalue()
    return res


def compile_text(text, outs=('python',), name='m', mode=None, extra=(), workdir=None, suffix=None):
    """Write text to <workdir>/<name>.<suffix> and run prophyc on it.
    outs: subset of python, cpp, cpp_full, prophy.  Returns ProphycResult with .outdir and .files."""
    d = workdir or fresh_dir('c')
    suffix = suffix or {'isar': 'xml', 'sack': 'hpp'}.get(mode, 'prophy')
    src = os.path.join(d, '%s.%s' % (name, suffix))
    with io.open(src, 'w', encoding='utf-8') as f:
        f.write(text)
    argv = []
    if mode:
        argv.append('--' + mode)
    for o in outs:
        argv += ['--%s_out' % o, d]
    if not outs:
        argv.append('--void_out')
    argv += list(extra)
    argv.append(src)
    res = run_prophyc(argv)
    res.outdir = d
    if res.ok:
        for fn in os.listdir(d):
            if fn.startswith(name + '.') and fn != os.path.basename(src):
                res.files[fn] = os.path.join(d, fn)
    return res


_modcount = [0]


def import_generated(path, package_dir=None):
    """Execute a generated .py file as a fresh module (its includes are resolved
    from its own directory).  Returns the module namespace as a dict."""
    setup_repo()
    import importlib.util
    _modcount[0] += 1
    modname = 'vfgen_%d_%d' % (os.getpid(), _modcount[0])
    d = os.path.dirname(path)
    # generated modules import siblings with "from .x import"; give them a package
    pkgname = 'vfpkg_%d_%d' % (os.getpid(), _modcount[0])
    spec_pkg = importlib.util.spec_from_loader(pkgname, loader=None, is_package=True)
    pkg = importlib.util.module_from_spec(spec_pkg)
    pkg.__path__ = [d]
    sys.modules[pkgname] = pkg
    stem = os.path.splitext(os.path.basename(path))[0]
    full = pkgname + '.' + stem
    spec = importlib.util.spec_from_file_location(full, path)
    mod = importlib.util.module_from_spec(spec)
    sys.modules[full] = mod
    try:
        spec.loader.exec_module(mod)
    finally:
        for k in [k for k in sys.modules if k == pkgname or k.startswith(pkgname + '.')]:
            del sys.modules[k]
    return mod


# ----------------------------------------------------------------------------
# build / observe through the public API
# ----------------------------------------------------------------------------

class BuildError(Exception):
    pass


def build(ref, tname, tree, msg):
    """Assign the value tree to the (fresh or used) message through the public API."""
    r = ref.resolve(tname)
    if isinstance(r, S.Union):
        armname, armval = tree
        msg.discriminator = armname
        arm = [a for a in r.arms if a.name == armname][0]
        ar = ref.resolve(arm.type)
        if isinstance(ar, (S.Struct, S.Union)):
            build(ref, arm.type, armval, getattr(msg, armname))
        else:
            setattr(msg, armname, armval)
        return msg
    for f in ref.fields(r.name):
        if f.kind in ('counter', 'sizer'):
            continue
        val = tree[f.name]
        if f.kind in ('scalar', 'enum'):
            setattr(msg, f.name, val)
        elif f.kind == 'bytes':
            setattr(msg, f.name, val)
        elif f.kind == 'comp':
            build(ref, f.type, val, getattr(msg, f.name))
        elif f.kind == 'opt':
            er = ref.resolve(f.type)
            if val is None:
                setattr(msg, f.name, None)
            elif isinstance(er, (S.Struct, S.Union)):
                setattr(msg, f.name, True)
                build(ref, f.type, val, getattr(msg, f.name))
            else:
                setattr(msg, f.name, val)
        elif f.kind == 'array':
            er = ref.resolve(f.type)
            arr = getattr(msg, f.name)
            if isinstance(er, (S.Struct, S.Union)):
                if f.mode == 'fixed':
                    for e, ev in zip(arr, val):
                        build(ref, f.type, ev, e)
                else:
                    del arr[:]
                    for ev in val:
                        build(ref, f.type, ev, arr.add())
            else:
                arr[:] = list(val)
    return msg


def observe(ref, tname, msg):
    """Read a message back into a value tree through public attributes only."""
    r = ref.resolve(tname)
    if isinstance(r, S.Union):
        disc = msg.discriminator
        arm = [a for a in r.arms if R.to_int(a.disc) == disc][0]
        return (arm.name, _obs_value(ref, arm.type, getattr(msg, arm.name)))
    out = {}
    for f in ref.fields(r.name):
        if f.kind in ('counter', 'sizer'):
            continue
        val = getattr(msg, f.name)
        if f.kind == 'opt':
            out[f.name] = None if val is None else _obs_value(ref, f.type, val)
        elif f.kind == 'bytes':
            out[f.name] = bytes(val)
        elif f.kind == 'array':
            out[f.name] = [_obs_value(ref, f.type, e) for e in val]
        else:
            out[f.name] = _obs_value(ref, f.type, val)
    return out


def _obs_value(ref, t, val):
    r = ref.resolve(t)
    if isinstance(r, str):
        return float(val) if r in S.FLOATS else int(val)
    if isinstance(r, S.Enum):
        return val.name
    return observe(ref, t, val)
