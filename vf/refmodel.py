"""Reference model of the prophy wire format, written from docs/encoding.rst and
docs/schema.rst (not from the implementation).  It is the oracle of the checks.

Rules and the place in the documentation each one comes from:

R1  numeric types: size = alignment = width; enum = u32            (encoding.rst "Numeric types")
R2  fields in declaration order, each at an offset divisible by its
    alignment, offsets counted from the start of the message       ("Padding")
R3  composite alignment = greatest field alignment; optional flag,
    union discriminator and array delimiter contribute (4)         ("Composite padding")
R4  composite size is a multiple of its alignment                  ("Composite padding")
R5  dynamic array = u32 counter + elements; limited array = u32
    counter + fixed zero-filled region; greedy = elements only;
    externally sized = elements, count in an earlier field         ("Array")
R6  optional = u32 flag, value at the next offset divisible by the
    value alignment, slot not rounded up, zero when absent         ("Optional", "Optional padding")
R7  union = u32 discriminator, arm at offset = union alignment,
    size rounded to alignment, shorter arms zero padded            ("Union", "Union padding")
R8  a struct splits into blocks, each ending with a dynamic field;
    the first field of every later block is aligned to the greatest
    alignment found in that block                                  ("Fields following dynamic fields")
R9  padding bytes are zero in the canonical encoding               ("Padding")
R10 stiffness: dynamic if it holds (directly or nested) a dynamic
    array; unlimited if its last field is greedy / unlimited       ("Dynamic struct", "Unlimited struct")
"""
import struct as _struct
from collections import namedtuple

from . import schema as S

K_FIXED, K_DYNAMIC, K_UNLIMITED = 0, 1, 2
KIND_NAMES = {0: 'FIXED', 1: 'DYNAMIC', 2: 'UNLIMITED'}

Layout = namedtuple('Layout', 'size align kind')
# kind: scalar enum counter sizer array bytes opt comp
WF = namedtuple('WF', 'kind name type mode n counter align ssize dyn unl member')
Span = namedtuple('Span', 'start length role path tname')

SCALAR_ROLES = ('scalar', 'counter', 'flag', 'disc', 'enum')


class RefError(Exception):
    pass


def roundup(x, a):
    return (x + a - 1) // a * a


class Out(object):
    def __init__(self, endian):
        self.endian = endian
        self.buf = bytearray()
        self.spans = []
        self.starts = {}      # path of a struct field -> offset at which the field starts (after its alignment)

    def pos(self):
        return len(self.buf)

    def pad_to(self, align, reason, path):
        n = -len(self.buf) % align
        if n:
            self.zero(n, 'pad:' + reason, path)

    def zero(self, n, role, path):
        if n:
            self.spans.append(Span(len(self.buf), n, role, path, None))
            self.buf.extend(b'\x00' * n)

    def scalar(self, tname, value, role, path):
        size, code = S.SCALARS[tname]
        self.spans.append(Span(len(self.buf), size, role, path, tname))
        self.buf.extend(_struct.pack(self.endian + code, value))

    def raw(self, data, path):
        if data:
            self.spans.append(Span(len(self.buf), len(data), 'bytes', path, None))
            self.buf.extend(data)


class Ref(object):
    def __init__(self, defs):
        self.defs = {}
        self.consts = {}
        for d in defs:
            if isinstance(d, S.Include):
                continue
            self.defs[d.name] = d
        self._layouts = {}
        self._fields = {}

    # ------------------------------------------------------------------ types
    def resolve(self, t):
        """Follow typedefs.  Returns a scalar name or an Enum/Struct/Union."""
        seen = 0
        while t not in S.SCALARS:
            if t == 'bytes':
                return 'u8'
            d = self.defs[t]
            if isinstance(d, S.Typedef):
                t = d.target
                seen += 1
                if seen > 100:
                    raise RefError('typedef cycle')
                continue
            return d
        return t

    def enum_value(self, enum, name):
        for n, v in enum.members:
            if n == name:
                return to_int(v)
        raise RefError('no enumerator %s' % name)

    def layout(self, t):
        if t in self._layouts:
            return self._layouts[t]
        r = self.resolve(t)
        if isinstance(r, str):
            size = S.SCALARS[r][0]
            lay = Layout(size, size, K_FIXED)                      # R1
        elif isinstance(r, S.Enum):
            lay = Layout(4, 4, K_FIXED)                            # R1
        elif isinstance(r, S.Union):
            arms = [self.layout(a.type) for a in r.arms]
            align = max([4] + [a.align for a in arms])             # R3
            size = roundup(align + max(a.size for a in arms), align)   # R7, R4
            lay = Layout(size, align, K_FIXED)
        elif isinstance(r, S.Struct):
            fields = self.fields(r.name)
            align = max([1] + [f.align for f in fields])           # R3
            off = 0
            first_of_block = False
            blocks = self.blocks(fields)
            for bi, block in enumerate(blocks):
                if bi:
                    off = roundup(off, max(f.align for f in block))    # R8
                for f in block:
                    off = roundup(off, f.align) + f.ssize          # R2
            size = roundup(off, align)                             # R4
            kind = K_FIXED
            if fields:
                if fields[-1].unl:
                    kind = K_UNLIMITED
                elif any(f.dyn for f in fields):
                    kind = K_DYNAMIC                               # R10
            lay = Layout(size, align, kind)
        else:
            raise RefError('cannot lay out %r' % (t,))
        self._layouts[t] = lay
        return lay

    @staticmethod
    def blocks(fields):
        out, cur = [], []
        for f in fields:
            cur.append(f)
            if f.dyn:
                out.append(cur)
                cur = []
        if cur:
            out.append(cur)
        return out

    def fields(self, sname):
        """Lower a struct to its wire fields (R5, R6)."""
        if sname in self._fields:
            return self._fields[sname]
        st = self.resolve(sname)
        sizers = set(m.arg for m in st.members if m.form == S.EXT)
        out = []
        for m in st.members:
            if m.type == 'bytes':
                kind, el = 'bytes', Layout(1, 1, K_FIXED)
            else:
                kind, el = 'array', self.layout(m.type)
            if m.form == S.PLAIN:
                r = self.resolve(m.type)
                if isinstance(r, str):
                    k = 'sizer' if m.name in sizers else 'scalar'
                    out.append(WF(k, m.name, r, None, None, None, el.align, el.size, False, False, m))
                elif isinstance(r, S.Enum):
                    out.append(WF('enum', m.name, m.type, None, None, None, 4, 4, False, False, m))
                else:
                    out.append(WF('comp', m.name, m.type, None, None, None, el.align, el.size,
                                  el.kind == K_DYNAMIC, el.kind == K_UNLIMITED, m))
            elif m.form == S.OPT:
                a = max(4, el.align)
                out.append(WF('opt', m.name, m.type, None, None, None, a, a + el.size, False, False, m))
            elif m.form == S.FIXED:
                out.append(WF(kind, m.name, m.type, 'fixed', int(m.arg), None, el.align,
                              int(m.arg) * el.size, False, False, m))
            elif m.form == S.LIMITED:
                cn = 'num_of_' + m.name
                out.append(WF('counter', cn, 'u32', None, None, m.name, 4, 4, False, False, m))
                out.append(WF(kind, m.name, m.type, 'limited', int(m.arg), cn, el.align,
                              int(m.arg) * el.size, False, False, m))
            elif m.form == S.DYNAMIC:
                cn = 'num_of_' + m.name
                out.append(WF('counter', cn, 'u32', None, None, m.name, 4, 4, False, False, m))
                out.append(WF(kind, m.name, m.type, 'counted', None, cn, el.align, 0, True, False, m))
            elif m.form == S.EXT:
                out.append(WF(kind, m.name, m.type, 'counted', None, m.arg, el.align, 0, True, False, m))
            elif m.form == S.GREEDY:
                out.append(WF(kind, m.name, m.type, 'greedy', None, None, el.align, 0, False, True, m))
            else:
                raise RefError(m.form)
        self._fields[sname] = out
        return out

    # ----------------------------------------------------------------- encode
    def encode(self, t, v, endian):
        out = Out(endian)
        self._enc(t, v, out, '')
        self.last_starts = out.starts
        return bytes(out.buf), out.spans

    def _enc(self, t, v, out, path):
        r = self.resolve(t)
        if isinstance(r, str):
            out.scalar(r, v, 'scalar', path)
        elif isinstance(r, S.Enum):
            out.scalar('u32', self.enum_value(r, v) & 0xffffffff, 'enum', path)
        elif isinstance(r, S.Union):
            self._enc_union(r, v, out, path)
        else:
            self._enc_struct(r, v, out, path)

    def _enc_union(self, u, v, out, path):
        lay = self.layout(u.name)
        start = out.pos()
        armname, armval = v
        arm = [a for a in u.arms if a.name == armname][0]
        out.scalar('u32', to_int(arm.disc) & 0xffffffff, 'disc', path + '.discriminator')
        out.pad_to(lay.align, 'disc', path)                        # R7
        self._enc(arm.type, armval, out, path + '.' + armname)
        out.zero(start + lay.size - out.pos(), 'fill:union', path)     # R7

    def _count_for(self, st, fields, f, v):
        """value of a counter / sizer field f: length of the array(s) it counts."""
        if f.kind == 'counter':
            return len(v[f.counter])
        lens = set(len(v[g.name]) for g in fields if g.kind in ('array', 'bytes') and g.counter == f.name)
        if len(lens) != 1:
            raise RefError('arrays sharing sizer %s differ in length' % f.name)
        return lens.pop()

    def _enc_struct(self, st, v, out, path):
        fields = self.fields(st.name)
        lay = self.layout(st.name)
        for bi, block in enumerate(self.blocks(fields)):
            if bi:
                out.pad_to(max(f.align for f in block), 'block', path)     # R8
            for f in block:
                out.pad_to(f.align, 'field', path + '.' + f.name)      # R2
                p = path + '.' + f.name
                out.starts[p] = out.pos()
                if f.kind == 'scalar':
                    out.scalar(f.type, v[f.name], 'scalar', p)
                elif f.kind == 'enum':
                    self._enc(f.type, v[f.name], out, p)
                elif f.kind in ('counter', 'sizer'):
                    out.scalar(f.type, self._count_for(st, fields, f, v), 'counter', p)
                elif f.kind == 'comp':
                    self._enc(f.type, v[f.name], out, p)
                elif f.kind == 'opt':
                    val = v[f.name]
                    start = out.pos()
                    out.scalar('u32', 1 if val is not None else 0, 'flag', p + '?')
                    out.pad_to(f.align, 'optflag', p)                  # R6
                    if val is not None:
                        self._enc(f.type, val, out, p)
                    out.zero(start + f.ssize - out.pos(), 'fill:absent', p)
                elif f.kind == 'bytes':
                    data = v[f.name]
                    if f.mode == 'fixed':
                        data = data.ljust(f.n, b'\x00')
                    out.raw(data, p)
                    if f.mode == 'limited':
                        out.zero(f.n - len(data), 'fill:limited', p)
                elif f.kind == 'array':
                    vals = v[f.name]
                    start = out.pos()
                    for i, e in enumerate(vals):
                        self._enc(f.type, e, out, '%s[%d]' % (p, i))
                    if f.mode == 'limited':
                        out.zero(start + f.ssize - out.pos(), 'fill:limited', p)
        out.pad_to(lay.align, 'tail', path)                            # R4

    # ----------------------------------------------------------------- decode
    # Used to cross-check the oracle against itself and to tell which byte
    # strings are canonical encodings; never used as the expected value of a
    # decode of corrupted input.
    def decode(self, t, data, endian):
        v, pos = self._dec(t, data, 0, endian, top=True)
        if pos != len(data):
            raise RefError('trailing bytes')
        return v

    def _rd(self, tname, data, pos, endian):
        size, code = S.SCALARS[tname]
        if pos + size > len(data):
            raise RefError('short')
        return _struct.unpack(endian + code, data[pos:pos + size])[0], pos + size

    def _dec(self, t, data, pos, endian, top=False):
        r = self.resolve(t)
        if isinstance(r, str):
            return self._rd(r, data, pos, endian)
        if isinstance(r, S.Enum):
            raw, pos = self._rd('u32', data, pos, endian)
            for n, val in r.members:
                if to_int(val) & 0xffffffff == raw:
                    return n, pos
            raise RefError('bad enum')
        if isinstance(r, S.Union):
            lay = self.layout(r.name)
            if pos + lay.size > len(data):
                raise RefError('short')
            disc, _ = self._rd('u32', data, pos, endian)
            for a in r.arms:
                if to_int(a.disc) & 0xffffffff == disc:
                    val, _ = self._dec(a.type, data, pos + lay.align, endian)
                    return (a.name, val), pos + lay.size
            raise RefError('bad disc')
        fields = self.fields(r.name)
        lay = self.layout(r.name)
        v, counts = {}, {}
        for bi, block in enumerate(self.blocks(fields)):
            if bi:
                pos = roundup(pos, max(f.align for f in block))
            for f in block:
                pos = roundup(pos, f.align)
                if f.kind == 'scalar':
                    v[f.name], pos = self._rd(f.type, data, pos, endian)
                elif f.kind == 'enum':
                    v[f.name], pos = self._dec(f.type, data, pos, endian)
                elif f.kind in ('counter', 'sizer'):
                    counts[f.name], pos = self._rd(f.type, data, pos, endian)
                elif f.kind == 'comp':
                    v[f.name], pos = self._dec(f.type, data, pos, endian)
                elif f.kind == 'opt':
                    flag, _ = self._rd('u32', data, pos, endian)
                    if pos + f.ssize > len(data):
                        raise RefError('short')
                    if flag:
                        v[f.name], _ = self._dec(f.type, data, pos + f.align, endian)
                    else:
                        v[f.name] = None
                    pos += f.ssize
                elif f.kind in ('bytes', 'array'):
                    esize = 1 if f.kind == 'bytes' else self.layout(f.type).size
                    ekind = K_FIXED if f.kind == 'bytes' else self.layout(f.type).kind
                    if f.mode == 'fixed':
                        n = f.n
                    elif f.mode in ('limited', 'counted'):
                        n = counts[f.counter]
                        if f.mode == 'limited' and n > f.n:
                            raise RefError('over limit')
                    else:
                        n = None
                    start = pos
                    if f.kind == 'bytes':
                        if n is None:
                            n = len(data) - pos
                        if pos + n > len(data):
                            raise RefError('short')
                        v[f.name] = bytes(data[pos:pos + n])
                        pos += n
                    else:
                        vals = []
                        if n is None:
                            while pos < len(data):
                                e, pos = self._dec(f.type, data, pos, endian)
                                vals.append(e)
                        else:
                            if ekind == K_FIXED and pos + n * esize > len(data):
                                raise RefError('short')
                            for _ in range(n):
                                e, pos = self._dec(f.type, data, pos, endian)
                                vals.append(e)
                        v[f.name] = vals
                    if f.mode == 'limited':
                        if start + f.ssize > len(data):
                            raise RefError('short')
                        pos = start + f.ssize
        pos = roundup(pos, lay.align)
        if pos > len(data):
            raise RefError('short')
        return v, pos

    # ----------------------------------------------------------------- render
    def render(self, t, v, indent=0):
        """The documented text form (docs/python_codec.rst, docs/cpp_full_codec.rst)."""
        r = self.resolve(t)
        if isinstance(r, S.Union):
            armname, armval = v
            arm = [a for a in r.arms if a.name == armname][0]
            return self._render_field(armname, arm.type, armval, indent)
        out = []
        for f in self.fields(r.name):
            if f.kind in ('counter', 'sizer'):
                continue
            val = v[f.name]
            if f.kind == 'opt':
                if val is not None:
                    out.append(self._render_field(f.name, f.type, val, indent))
            elif f.kind == 'bytes':
                out.append('%s%s: %s\n' % ('  ' * indent, f.name, render_bytes(val)))
            elif f.kind == 'array':
                for e in val:
                    out.append(self._render_field(f.name, f.type, e, indent))
            else:
                out.append(self._render_field(f.name, f.type, val, indent))
        return ''.join(out)

    def _render_field(self, name, t, val, indent):
        pre = '  ' * indent
        r = self.resolve(t)
        if isinstance(r, str):
            return '%s%s: %s\n' % (pre, name, val)
        if isinstance(r, S.Enum):
            return '%s%s: %s\n' % (pre, name, val)
        return '%s%s {\n%s%s}\n' % (pre, name, self.render(t, val, indent + 1), pre)

    # ------------------------------------------------------------ raw offsets
    def raw_layout(self, sname):
        """Offsets of a struct's wire fields relative to the start of their block
        (main block = the struct itself, later blocks = part2, part3, ...), as the
        raw C++ codec must see them.  Returns [(part_index, [(field, offset)], part_align)].
        Dynamic arrays occupy one element slot in the raw struct but zero bytes on
        the wire; offsets are wire offsets with every dynamic array empty."""
        fields = self.fields(sname)
        parts = []
        for bi, block in enumerate(self.blocks(fields)):
            off = 0
            items = []
            for f in block:
                off = roundup(off, f.align)
                items.append((f, off))
                off += f.ssize
            parts.append((bi, items, max(f.align for f in block)))
        return parts


def to_int(v):
    if isinstance(v, int):
        return v
    return int(str(v), 0)


def render_bytes(data):
    out = ["'"]
    for b in bytearray(data):
        if b == 9:
            out.append('\\t')
        elif b == 10:
            out.append('\\n')
        elif b == 13:
            out.append('\\r')
        elif b == 92:
            out.append('\\\\')
        elif 32 <= b <= 126:
            out.append(chr(b))
        else:
            out.append('\\x%02x' % b)
    out.append("'")
    return ''.join(out)


def scalar_mirror_ok(spans, little, big):
    """C19 oracle helper: big is little with every scalar span reversed in place
    and all other bytes equal; returns None or a description of the first offence."""
    if len(little) != len(big):
        return 'length %d vs %d' % (len(little), len(big))
    covered = 0
    for sp in spans:
        a = little[sp.start:sp.start + sp.length]
        b = big[sp.start:sp.start + sp.length]
        if sp.role in SCALAR_ROLES:
            if a != b[::-1]:
                return 'scalar %s at %d not mirrored' % (sp.path, sp.start)
        else:
            if a != b:
                return '%s at %d differs between byte orders' % (sp.role, sp.start)
            if (sp.role.startswith('pad') or sp.role.startswith('fill')) and a.strip(b'\x00'):
                return '%s at %d not zero' % (sp.role, sp.start)
        covered += sp.length
    if covered != len(little):
        return 'span map covers %d of %d bytes' % (covered, len(little))
    return None


def differs_only_in_padding(spans, expected, got):
    """True if got has the expected length and equals expected outside pad / fill spans, i.e. the
    implementation demonstrably uses the oracle's layout and the span map may be applied to it."""
    if len(expected) != len(got):
        return False
    for sp in spans:
        if sp.role.startswith('pad') or sp.role.startswith('fill'):
            continue
        if expected[sp.start:sp.start + sp.length] != got[sp.start:sp.start + sp.length]:
            return False
    return True
