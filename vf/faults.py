"""Fault enumerator (C06, C07): from each valid encoding, the complete fault menu
with a deviation bound; plus all short byte strings over a small alphabet."""
import itertools
import struct as _struct

from . import schema as S
from . import refmodel as R
from . import universe as U
from . import values as V

CONTROL_VALUES = [0, 1, 2, 0x7f, 0x80, 0xff, 0x100, 0xffff, 65536, 65537, 0x7fffffff, 0x80000000, 0xffffffff]
CONTROL_ROLES = ('counter', 'flag', 'disc', 'enum')
SHORT_ALPHABET = [0x00, 0x01, 0x02, 0x03, 0xff]


def control_substitutes(span, data, endian, limit_hint=None):
    """Values a control word is replaced by (truncated to its width, current value excluded)."""
    width = span.length
    code = {1: 'B', 2: 'H', 4: 'I', 8: 'Q'}[width]
    cur = _struct.unpack(endian + code, data[span.start:span.start + width])[0]
    vals = set(v & ((1 << (8 * width)) - 1) for v in CONTROL_VALUES)
    vals.update([(cur - 1) & ((1 << (8 * width)) - 1), cur + 1])
    if limit_hint is not None:
        vals.update([limit_hint, limit_hint + 1])
    vals.discard(cur)
    out = []
    for v in sorted(vals):
        if v < (1 << (8 * width)):
            out.append((v, _struct.pack(endian + code, v)))
    return out


def single_faults(data, spans, endian, tier, align):
    """[(label, bytes)] -- every single deviation from the valid encoding."""
    out = []
    n = len(data)
    for k in range(n):
        out.append(('cut@%d' % k, data[:k]))
    for ext in sorted(set([1, align, 8])):
        out.append(('ext+%d:00' % ext, data + b'\x00' * ext))
        out.append(('ext+%d:ff' % ext, data + b'\xff' * ext))
    for si, sp in enumerate(spans):
        if sp.role in CONTROL_ROLES:
            for v, raw in control_substitutes(sp, data, endian):
                out.append(('%s@%d=%#x' % (sp.role, sp.start, v), data[:sp.start] + raw + data[sp.start + sp.length:]))
    byte_limit = 48 if tier == 'quick' else 160
    if n <= byte_limit:
        for k in range(n):
            for label, f in (('x01', lambda b: b ^ 1), ('x80', lambda b: b ^ 0x80), ('ff', lambda b: 0xff)):
                nb = f(data[k])
                if nb != data[k]:
                    out.append(('byte@%d:%s' % (k, label), data[:k] + bytes(bytearray([nb])) + data[k + 1:]))
    return out


def double_faults(data, spans, endian, align, cap=400):
    """Pairs: two control-word faults, and a prefix after one control-word fault."""
    out = []
    ctrl = [sp for sp in spans if sp.role in CONTROL_ROLES]
    small = [0, 1, 2, 0xff, 0xffffffff]
    for a, b in itertools.combinations(ctrl, 2):
        for va in small:
            for vb in small:
                d = bytearray(data)
                for sp, v in ((a, va), (b, vb)):
                    code = {1: 'B', 2: 'H', 4: 'I', 8: 'Q'}[sp.length]
                    d[sp.start:sp.start + sp.length] = _struct.pack(endian + code, v & ((1 << (8 * sp.length)) - 1))
                if bytes(d) != data:
                    out.append(('2ctl@%d,%d' % (a.start, b.start), bytes(d)))
                if len(out) >= cap:
                    return out
    for sp in ctrl:
        for v, raw in control_substitutes(sp, data, endian)[:6]:
            d = data[:sp.start] + raw + data[sp.start + sp.length:]
            for k in range(sp.start + sp.length, len(d)):
                out.append(('ctl@%d+cut@%d' % (sp.start, k), d[:k]))
                if len(out) >= cap * 2:
                    return out
    return out


def short_strings(maxlen):
    for n in range(0, maxlen + 1):
        for tup in itertools.product(SHORT_ALPHABET, repeat=n):
            yield bytes(bytearray(tup))


def fault_universe(tier, seed=0):
    """Representative states for fault enumeration: every codec cell, a level-1 core, sampled level 2/3."""
    states = list(U.codec_cells())
    core = U.core16()
    reg = dict(U.BASE_HELPERS)
    last = [('greedy', 'u8'), ('greedy', 'u32'), ('greedy', 'bytes')]
    for seq in U.sequences(core, last, 2):
        if len(seq) == 2:
            states.append(U.mk_state('struct', seq, reg))
    l2 = list(U.level2('quick', seed, coarse=True))
    step = 25 if tier == 'quick' else 6
    states += l2[seed % step::step]
    l3 = list(U.level3('quick', seed, coarse=True))
    step3 = 10 if tier == 'quick' else 3
    states += l3[seed % step3::step3]
    # unions whose largest arm is a struct with padding in front of a narrow optional (the union trusts the arm's
    # static size), alone, inside a struct and as array elements
    reg2 = dict(U.BASE_HELPERS)
    reg2['P1'] = S.Struct('P1', [S.M('k', 'u8'), S.M('o', 'u8', S.OPT)])
    reg2['P2'] = S.Struct('P2', [S.M('k', 'u16'), S.M('o', 'u16', S.OPT), S.M('t', 'u8')])
    reg2['P3'] = S.Struct('P3', [S.M('k', 'u8'), S.M('o', 'u64', S.OPT)])
    for i, p in enumerate(('P1', 'P2', 'P3')):
        un = 'UP%d' % i
        reg2[un] = S.Union(un, [S.Arm(1, 'u8', 'a'), S.Arm(2, p, 'p')])
        states.append(U.mk_state('union', ((1, 'u8'), (2, p)), reg2))
        states.append(U.mk_state('struct', (('plain', un), ('plain', 'u8')), reg2))
        states.append(U.mk_state('struct', (('dynamic', un),), reg2))
        states.append(U.mk_state('struct', (('opt', un), ('plain', 'u16')), reg2))
    seen, out = set(), []
    for st in states:
        if st.key not in seen:
            seen.add(st.key)
            out.append(st)
    return out


def short_string_schemas():
    """~20 small schemas for the exhaustive short-string enumeration."""
    reg = dict(U.BASE_HELPERS)
    reg['F1'] = S.Struct('F1', [S.M('a', 'u8'), S.M('b', 'u16')])
    reg['D1'] = S.Struct('D1', [S.M('a', 'u16'), S.M('b', 'u8', S.DYNAMIC)])
    reg['U1'] = S.Union('U1', [S.Arm(1, 'u8', 'x'), S.Arm(2, 'u32', 'y'), S.Arm(3, 'F1', 'z')])
    seqs = [
        (('plain', 'u8'),), (('plain', 'u16'), ('plain', 'u8')), (('dynamic', 'u8'),), (('dynamic', 'u16'),),
        (('limited', 'u8', 3),), (('opt', 'u8'),), (('opt', 'u16'), ('plain', 'u8')), (('plain', 'E01'),),
        (('dynamic', 'E01'),), (('plain', 'U1'),), (('dynamic', 'F1'),), (('dynamic', 'D1'),), (('greedy', 'u16'),),
        (('greedy', 'F1'),), (('ext', 'u8', 'u8'),), (('ext', 'u16', 'u8'), ('plain', 'u8')), (('dynamic', 'bytes'),),
        (('limited', 'F1', 2),), (('opt', 'U1'),), (('dynamic', 'u8'), ('dynamic', 'u8')), (('greedy', 'D1'),),
        (('plain', 'D1'), ('plain', 'u8')),
    ]
    return [U.mk_state('struct', s, reg) for s in seqs] + [U.mk_state('union', ((1, 'u8'), (2, 'u32'), (3, 'F1')), reg)]
