"""Expression enumerator (C14): all expression trees up to a number of operators over a
literal/name alphabet, with an own integer evaluator and renderers that follow the
precedence declared by the language's grammar:
    lowest  + -   then  * /   then  << >>   then unary minus  (all binary operators left associative)."""
import itertools

PREC = {'+': 1, '-': 1, '*': 2, '/': 2, '<<': 3, '>>': 3}
UMINUS = 4
BINOPS = ['+', '-', '*', '/', '<<', '>>']

# leaf: (text, value, kind) kind: dec | oct | hex | name
NAMES = {'A': 6, 'B': 20, 'E_X': 3, 'INC': 5}
LEAVES_FULL = [('0', 0, 'dec'), ('1', 1, 'dec'), ('2', 2, 'dec'), ('3', 3, 'dec'), ('7', 7, 'dec'), ('010', 8, 'oct'),
               ('017', 15, 'oct'), ('0x10', 16, 'hex'), ('0xFF', 255, 'hex'), ('1000', 1000, 'dec'),
               ('A', 6, 'name'), ('B', 20, 'name'), ('E_X', 3, 'name'), ('INC', 5, 'name')]
# literals beyond 2**53: an evaluator that goes through floating point rounds them
LEAVES_BIG = [('0xFFFFFFFFFFFFFFFF', 2 ** 64 - 1, 'hex'), ('0x0100000000000000', 2 ** 56, 'hex'),
              ('9007199254740993', 2 ** 53 + 1, 'dec')]
LEAVES_CORE = [('1', 1, 'dec'), ('2', 2, 'dec'), ('7', 7, 'dec'), ('0x10', 16, 'hex'), ('A', 6, 'name'), ('E_X', 3, 'name')]


class Invalid(Exception):
    pass


def evaluate(tree, env=None):
    """Own integer evaluator; raises Invalid outside the property's domain
    (division needs non-negative operands and a non-zero divisor; shift counts 0..3 keep the values small).
    env, if given, overrides the values of names."""
    k = tree[0]
    if k == 'leaf':
        if env is not None and tree[3] == 'name':
            return env[tree[1]]
        return tree[2]
    if k == 'neg':
        return -evaluate(tree[1], env)
    op, a, b = tree[1], evaluate(tree[2], env), evaluate(tree[3], env)
    if op == '+':
        return a + b
    if op == '-':
        return a - b
    if op == '*':
        return a * b
    if op == '/':
        if a < 0 or b <= 0:
            raise Invalid()
        return a // b
    if op in ('<<', '>>'):
        if not 0 <= b <= 3:
            raise Invalid()
        return a << b if op == '<<' else a >> b       # >> of a negative value: floor, as integer arithmetic has it
    raise ValueError(op)


def level(tree):
    if tree[0] == 'leaf':
        return 9
    if tree[0] == 'neg':
        return UMINUS
    return PREC[tree[1]]


def render_min(tree):
    """Fewest parentheses that keep the tree under the declared precedence and left associativity."""
    k = tree[0]
    if k == 'leaf':
        return tree[1]
    if k == 'neg':
        inner = render_min(tree[1])
        if level(tree[1]) < UMINUS or tree[1][0] == 'neg':
            inner = '(' + inner + ')'
        return '-' + inner
    op, l, r = tree[1], tree[2], tree[3]
    ls, rs = render_min(l), render_min(r)
    if level(l) < PREC[op]:
        ls = '(' + ls + ')'
    if level(r) <= PREC[op]:
        rs = '(' + rs + ')'
    return '%s %s %s' % (ls, op, rs)


def render_full(tree):
    k = tree[0]
    if k == 'leaf':
        return tree[1]
    if k == 'neg':
        return '-(' + render_full(tree[1]) + ')'
    return '(%s %s %s)' % (render_full(tree[2]), tree[1], render_full(tree[3]))


def kinds(tree, out=None):
    out = set() if out is None else out
    if tree[0] == 'leaf':
        out.add(tree[3])
    elif tree[0] == 'neg':
        kinds(tree[1], out)
    else:
        kinds(tree[2], out)
        kinds(tree[3], out)
    return out


def ops_used(tree, out=None):
    out = [] if out is None else out
    if tree[0] == 'neg':
        out.append('neg')
        ops_used(tree[1], out)
    elif tree[0] == 'bin':
        out.append(tree[1])
        ops_used(tree[2], out)
        ops_used(tree[3], out)
    return out


def trees(nops, leaves, allow_neg=True):
    """All trees with exactly nops operators (binary operators and unary minus both count)."""
    if nops == 0:
        for text, val, kind in leaves:
            yield ('leaf', text, val, kind)
        return
    if allow_neg:
        for t in trees(nops - 1, leaves, allow_neg):
            if t[0] != 'neg':
                yield ('neg', t)
    for left_ops in range(0, nops):
        right_ops = nops - 1 - left_ops
        for l in trees(left_ops, leaves, allow_neg):
            for r in trees(right_ops, leaves, allow_neg):
                for op in BINOPS:
                    yield ('bin', op, l, r)


def universe(tier):
    """(tree, value) for every valid expression of the tier's bound, simplest first."""
    seen = set()
    plan = [(0, LEAVES_FULL), (1, LEAVES_FULL), (2, LEAVES_FULL if tier == 'thorough' else LEAVES_CORE),
            (3, LEAVES_CORE[:4] if tier == 'quick' else LEAVES_CORE)]
    if tier == 'quick':
        plan[3] = (3, [LEAVES_CORE[1], LEAVES_CORE[2], LEAVES_CORE[4]])
    plan.append((1, LEAVES_BIG + LEAVES_CORE[:3]))
    if tier == 'thorough':
        plan.append((2, LEAVES_BIG + LEAVES_CORE[:2]))
    for nops, leaves in plan:
        for t in trees(nops, leaves):
            try:
                v = evaluate(t)
            except Invalid:
                continue
            if not -(1 << 63) < v < (1 << 63):
                continue
            text = render_min(t)
            if text in seen:
                continue
            seen.add(text)
            yield t, v
