"""Raw C++ codec (--cpp_out): layout table (C08) and swap driver (C09), built with g++
(the ABI the properties name)."""
import os
import shutil
import subprocess
import traceback

from . import schema as S
from . import refmodel as R
from . import universe as U
from . import values as V
from . import toolchain as T
from . import sse
from . import pyjudge

GXX = os.environ.get('VERIF_GXX', 'g++')
RAW_BATCH = 200


def wire_known(ref, top):
    return True


# ---------------------------------------------------------------------------
# C08: offsetof / sizeof table
# ---------------------------------------------------------------------------

def table_items(ref, name):
    """[(label, c++ expression, expected value)] for one struct / union."""
    d = ref.resolve(name)
    lay = ref.layout(name)
    items = []
    if isinstance(d, S.Union):
        items.append(('sizeof', 'sizeof(%s)' % name, lay.size))
        items.append(('alignof', '__alignof__(%s)' % name, lay.align))
        items.append(('discriminator', 'offsetof(%s, discriminator)' % name, 0))
        for a in d.arms:
            items.append(('arm.' + a.name, 'offsetof(%s, %s)' % (name, a.name), lay.align))
        return items
    if lay.kind == R.K_FIXED:
        items.append(('sizeof', 'sizeof(%s)' % name, lay.size))
    items.append(('alignof', '__alignof__(%s)' % name, lay.align))
    for bi, fields, balign in ref.raw_layout(name):
        cname = name if bi == 0 else '%s::part%d' % (name, bi + 1)
        if bi:
            items.append(('part%d.alignof' % (bi + 1), '__alignof__(%s)' % cname, balign))
        for f, off in fields:
            if f.kind == 'opt':
                items.append(('part%d.has_%s' % (bi + 1, f.name), 'offsetof(%s, has_%s)' % (cname, f.name), off))
                items.append(('part%d.%s' % (bi + 1, f.name), 'offsetof(%s, %s)' % (cname, f.name), off + f.align))
            else:
                items.append(('part%d.%s' % (bi + 1, f.name), 'offsetof(%s, %s)' % (cname, f.name), off))
    return items


def table_source(ref, names):
    out = ['#include <stddef.h>\n#include <stdio.h>\n#include "m.pp.hpp"\nint main()\n{\n']
    for n in names:
        for label, expr, want in table_items(ref, n):
            out.append('    printf("%s %s %%lu\\n", (unsigned long)(%s));\n' % (n, label, expr))
    out.append('    return 0;\n}\n')
    return ''.join(out)


def composite_names(defs):
    return [d.name for d in defs if isinstance(d, (S.Struct, S.Union))]


def build_and_run_table(workdir, ref, names):
    inc = os.path.join(T.REPO, 'prophy_cpp', 'include')
    src = os.path.join(workdir, 'table.cpp')
    with open(src, 'w') as f:
        f.write(table_source(ref, names))
    exe = os.path.join(workdir, 'table')
    p = subprocess.run([GXX, '-std=gnu++14', '-O0', '-w', '-Wno-invalid-offsetof', '-I', inc, '-I', workdir, src, '-o', exe],
                       stdout=subprocess.PIPE, stderr=subprocess.STDOUT)
    if p.returncode:
        return None, p.stdout.decode('utf-8', 'replace')
    q = subprocess.run([exe], stdout=subprocess.PIPE)
    got = {}
    for line in q.stdout.decode().splitlines():
        n, label, val = line.split()
        got[(n, label)] = int(val)
    return got, ''


def prepare_raw(states, build):
    """Compile a batch with --cpp_out and apply build(workdir, ref, defs, tops) -> result or (None, message).
    Bisects on failure.  Returns (list of (states, defs, tops, ref, result, outdir), rejected)."""
    done, rejected = [], []

    def go(sts):
        defs, tops = U.batch_defs(sts)
        res = T.compile_text(S.render_prophy(defs), outs=('cpp',))
        stage = msg = None
        result = None
        if not res.ok:
            stage, msg = 'prophyc', '%s: %s' % (res.exc_type, str(res.exc)[:300])
        else:
            ref = R.Ref(defs)
            result, text = build(res.outdir, ref, defs, tops)
            if result is None:
                stage, msg = 'c++', text[:1500]
        if stage:
            shutil.rmtree(res.outdir, ignore_errors=True)
            if len(sts) == 1:
                rejected.append((sts[0], stage, msg))
                return
            if len(rejected) >= 8:
                # enough culprits isolated in this batch: the rest of a failing group is set aside unbisected
                rejected.extend((st, stage, 'in a failing group, not bisected further: ' + msg) for st in sts)
                return
            mid = len(sts) // 2
            go(sts[:mid])
            go(sts[mid:])
            return
        done.append((sts, defs, tops, ref, result, res.outdir))

    go(list(states))
    return done, rejected


def judge_layout_batch(job):
    states, tier = job
    T.setup_repo()
    out = {'viol': [], 'types': 0, 'items': 0, 'rejected': [], 'samples': [], 'nontrivial': 0}
    try:
        def build(workdir, ref, defs, tops):
            return build_and_run_table(workdir, ref, composite_names(defs))
        done, rejected = prepare_raw(states, build)
        out['rejected'] = [(st.key, stage, msg) for st, stage, msg in rejected]
        seen = {}
        for sts, defs, tops, ref, got, outdir in done:
            shutil.rmtree(outdir, ignore_errors=True)
            state_of = dict(zip(tops, sts))
            for name in composite_names(defs):
                out['types'] += 1
                items = table_items(ref, name)
                bad = []
                for label, expr, want in items:
                    out['items'] += 1
                    have = got.get((name, label))
                    if have != want:
                        bad.append((label, want, have))
                if any(sp for sp in items if sp[0].startswith('part2')):
                    out['nontrivial'] += 1
                if bad:
                    label, want, have = bad[0]
                    kind = label.split('.')[0] if label.startswith('part') else label
                    member = label.split('.')[-1]
                    fld = None
                    d = ref.resolve(name)
                    if isinstance(d, S.Struct):
                        for m in d.members:
                            if m.name == member or 'has_' + m.name == member or 'num_of_' + m.name == member:
                                fld = m
                    what = 'has' if member.startswith('has_') else ('counter' if member.startswith('num_of_') else 'value')
                    key = 'raw|%s|%s|%s|d=%+d' % (label if fld is None and not label.startswith('arm') else what,
                                                  sse.member_class(ref, fld) if fld else (
                                                      'union' if isinstance(d, S.Union) else 'struct'),
                                                  'in-part' if label.startswith('part') and not label.startswith('part1') else 'main',
                                                  (have if have is not None else -1) - want)
                    seen[key] = seen.get(key, 0) + 1
                    art = None
                    if seen[key] <= 2:
                        cdefs = S.closure(ref.defs, [name])
                        art = {'schema': S.render_prophy(cdefs), 'defs': S.defs_to_json(cdefs), 'top': name,
                               'state': state_of[name].key if name in state_of else name,
                               'detail': '%s %s: g++ says %s, wire layout says %s (all mismatches: %s)' % (
                                   name, label, have, want, bad[:6])}
                    out['viol'].append((key, art))
                if len(out['samples']) < 2 and len(items) > 6:
                    out['samples'].append({'type': pyjudge._shape_key(ref, name, None),
                                           'table': [[l, w] for l, e, w in items][:12]})
    except Exception:       # noqa
        out['harness_error'] = traceback.format_exc()
    return out


def replay_layout(art):
    defs = S.defs_from_json(art['defs'])
    ref = R.Ref(defs)
    res = T.compile_text(art['schema'], outs=('cpp',))
    if not res.ok:
        return 'prophyc rejects: %s' % res.exc
    try:
        got, text = build_and_run_table(res.outdir, ref, composite_names(defs))
        if got is None:
            return 'generated raw header does not compile:\n%s' % text[:1200]
        bad = []
        for name in composite_names(defs):
            for label, expr, want in table_items(ref, name):
                if got.get((name, label)) != want:
                    bad.append('%s %s: g++ %s, wire %s' % (name, label, got.get((name, label)), want))
        if bad:
            return 'schema:\n%s\n%s' % (art['schema'], '\n'.join(bad[:8]))
        return None
    finally:
        shutil.rmtree(res.outdir, ignore_errors=True)


# ---------------------------------------------------------------------------
# C09: swap driver
# ---------------------------------------------------------------------------

SWAP_PRELUDE = r'''
#include <stdint.h>
#include <stdio.h>
#include <stdlib.h>
#include <string.h>
#include <string>
#include <map>
#include <vector>
#include "m.pp.hpp"

static const size_t ARENA = 8192;
static const size_t CANARY = 256;

template <class T>
static long do_swap(uint8_t* p)
{
    T* end = prophy::swap(reinterpret_cast<T*>(p));
    return long(reinterpret_cast<uint8_t*>(end) - p);
}
typedef long (*fn_t)(uint8_t*);

static void put_hex(const uint8_t* p, size_t n)
{
    static const char* d = "0123456789abcdef";
    if (!n) { fputc('-', stdout); return; }
    for (size_t i = 0; i < n; ++i) { fputc(d[p[i] >> 4], stdout); fputc(d[p[i] & 15], stdout); }
}
'''

SWAP_MAIN = r'''
int main()
{
    std::map<std::string, fn_t> table;
    fill_table(table);
    static char line[200000];
    while (fgets(line, sizeof line, stdin))
    {
        char id[64], type[128];
        int off = 0;
        if (sscanf(line, "%63s %127s %n", id, type, &off) < 2) continue;
        char* hex = line + off;
        size_t n = strlen(hex);
        while (n && (hex[n - 1] == '\n' || hex[n - 1] == ' ')) hex[--n] = 0;
        std::vector<uint8_t> in;
        if (hex[0] != '-') for (size_t i = 0; i + 1 < n; i += 2) { unsigned v; sscanf(hex + i, "%2x", &v); in.push_back(uint8_t(v)); }
        printf("BEGIN %s\n", id); fflush(stdout);
        // exact heap block: canary | message at an 8-aligned address | canary; ASan guards the block ends
        uint8_t* block = (uint8_t*)malloc(CANARY + in.size() + CANARY + 16);
        uint8_t* msg = block + CANARY;
        while (reinterpret_cast<uintptr_t>(msg) & 7) ++msg;
        size_t total = CANARY + in.size() + CANARY + 16;
        memset(block, 0xA5, total);
        if (in.size()) memcpy(msg, in.data(), in.size());
        long ret = table[type](msg);
        bool under = false, over = false;
        for (uint8_t* p = block; p < msg; ++p) if (*p != 0xA5) under = true;
        for (uint8_t* p = msg + in.size(); p < block + total; ++p) if (*p != 0xA5) over = true;
        printf("R %s ret=%ld under=%d over=%d hex=", id, ret, int(under), int(over));
        put_hex(msg, in.size());
        printf("\n"); fflush(stdout);
        free(block);
    }
    return 0;
}
'''


def swap_source(tops):
    out = [SWAP_PRELUDE, 'static void fill_table(std::map<std::string, fn_t>& t)\n{\n']
    for t in tops:
        out.append('    t["%s"] = &do_swap<%s>;\n' % (t, t))
    out.append('}\n')
    out.append(SWAP_MAIN)
    return ''.join(out)


def build_swap_driver(workdir, ref, defs, tops):
    inc = os.path.join(T.REPO, 'prophy_cpp', 'include')
    src = os.path.join(workdir, 'swapdrv.cpp')
    with open(src, 'w') as f:
        f.write(swap_source(tops))
    exe = os.path.join(workdir, 'swapdrv')
    p = subprocess.run([GXX, '-std=gnu++14', '-O0', '-w', '-fsanitize=address', '-fno-omit-frame-pointer', '-I', inc,
                        '-I', workdir, src, os.path.join(workdir, 'm.pp.cpp'), '-o', exe],
                       stdout=subprocess.PIPE, stderr=subprocess.STDOUT)
    if p.returncode:
        return None, p.stdout.decode('utf-8', 'replace')
    return exe, ''


def run_swap(exe, cases, timeout=300):
    """cases: [(id, type, bytes)] -> {id: result}; crash attributed to the last BEGIN."""
    from . import cppdriver as D
    results = {}
    pending = list(cases)
    env = dict(os.environ)
    env.update(D.ASAN_ENV)
    while pending:
        text = ''.join('%s %s %s\n' % (c[0], c[1], c[2].hex() if c[2] else '-') for c in pending)
        timed_out = False
        try:
            p = subprocess.run([exe], input=text.encode(), stdout=subprocess.PIPE, stderr=subprocess.PIPE, env=env,
                               timeout=timeout)
            stdout, stderr, code = p.stdout, p.stderr, p.returncode
        except subprocess.TimeoutExpired as e:
            stdout, stderr, code, timed_out = e.stdout or b'', b'TIMEOUT', -999, True
        last = None
        done = set()
        for line in stdout.decode('latin-1').splitlines():
            if line.startswith('BEGIN '):
                last = line.split()[1]
            elif line.startswith('R '):
                r = D.parse_result(line)
                results[r['id']] = r
                done.add(r['id'])
        if code == 0:
            break
        ids = [c[0] for c in pending]
        if timed_out:
            # a swap that never returns, or a slow machine: continue behind the finished cases; a case is reported
            # as hanging only if it is first in line and still does not finish alone
            if last is None:
                raise RuntimeError('swap driver produced nothing within %d s' % timeout)
            idx = ids.index(last)
            if last in done:
                pending = pending[idx + 1:]
            elif idx > 0:
                pending = pending[idx:]
            else:
                c = pending[0]
                try:
                    subprocess.run([exe], input=('%s %s %s\n' % (c[0], c[1], c[2].hex() if c[2] else '-')).encode(),
                                   stdout=subprocess.PIPE, stderr=subprocess.PIPE, env=env, timeout=timeout)
                    timeout *= 2
                except subprocess.TimeoutExpired:
                    results[last] = {'id': last, 'crash': 'TIMEOUT: prophy::swap does not return within %d s' % timeout}
                    pending = pending[1:]
            continue
        if last is None or last in done:
            raise RuntimeError('swap driver died outside a case: %s' % stderr.decode('latin-1')[-800:])
        results[last] = {'id': last, 'crash': stderr.decode('latin-1')[-3000:]}
        pending = pending[ids.index(last) + 1:]
    return results


def greedy_prefix(ref, top):
    """(offset of the unlimited member of the outermost struct in this value's encoding) is value dependent;
    returns the wire field that is the unlimited member, or None."""
    d = ref.resolve(top)
    if not isinstance(d, S.Struct) or ref.layout(top).kind != R.K_UNLIMITED:
        return None
    return ref.fields(top)[-1]


def expected_swap(ref, top, v):
    """(expected buffer after swapping the big-endian encoding, expected return offsets) on a little-endian host."""
    be, _ = ref.encode(top, v, '>')
    le, spans = ref.encode(top, v, '<')
    tail = greedy_prefix(ref, top)
    if tail is None:
        return be, le, [len(le)], spans
    # members preceding the unlimited member are converted, the rest is untouched
    start = ref.last_starts['.' + tail.name]
    want = le[:start] + be[start:]
    return be, want, [start], spans


def raw_known_site(ref, top):
    """Schema site of recorded finding F21: the swap of partN (N >= 2) returns the end of its dynamic data
    rounded up to partN's own alignment instead of the next part's, so a following, less aligned part is
    looked for too far."""
    seen = set()

    def walk(t):
        if t in seen or t == 'bytes':
            return None
        seen.add(t)
        r = ref.resolve(t)
        if isinstance(r, (str, S.Enum)):
            return None
        if isinstance(r, S.Union):
            for a in r.arms:
                if walk(a.type):
                    return walk(a.type) or 'x'
            return None
        blocks = ref.blocks(ref.fields(r.name))
        aligns = [max(f.align for f in b) for b in blocks]
        for k in range(1, len(aligns) - 1):
            if aligns[k] > aligns[k + 1]:
                return 'part-end-rounded-to-own-alignment'
        for m in r.members:
            w = walk(m.type)
            if w:
                return w
        return None

    return walk(top)


def judge_swap_batch(job):
    states, tier = job
    T.setup_repo()
    out = {'viol': [], 'states': 0, 'values': 0, 'exec': 0, 'rejected': [], 'samples': [], 'nontrivial': 0, 'greedy': 0}
    try:
        done, rejected = prepare_raw(states, build_swap_driver)
        out['rejected'] = [(st.key, stage, msg) for st, stage, msg in rejected]
        seen = {}
        for sts, defs, tops, ref, exe, outdir in done:
            try:
                vg = V.Values(ref, tier)
                cases, meta = [], {}
                for si, (st, top) in enumerate(zip(sts, tops)):
                    out['states'] += 1
                    vals, _ = vg.enumerate(top, 16 if tier == 'quick' else 64)
                    for vi, v in enumerate(vals):
                        be, want, rets, spans = expected_swap(ref, top, v)
                        cid = '%d.%d' % (si, vi)
                        cases.append((cid, top, be))
                        meta[cid] = (st, top, v, be, want, rets, spans)
                        out['values'] += 1
                        if sse.nontrivial(spans):
                            out['nontrivial'] += 1
                        if greedy_prefix(ref, top) is not None:
                            out['greedy'] += 1
                results = run_swap(exe, cases)
                out['exec'] += len(cases)
                for cid, (st, top, v, be, want, rets, spans) in meta.items():
                    r = results.get(cid)
                    why = None
                    if r is None:
                        why = ('no-result', 'driver gave no result')
                    elif 'crash' in r:
                        from . import cppdriver as D
                        why = ('crash|' + D.crash_frame(r['crash']), r['crash'][-1000:])
                    else:
                        got = bytes.fromhex(r['hex']) if r['hex'] != '-' else b''
                        if r['under'] == '1' or r['over'] == '1':
                            why = ('wrote-outside-message', 'canary %s' % ('before' if r['under'] == '1' else 'after'))
                        elif got != want:
                            why = ('buffer|' + sse.diagnose(ref, top, want, spans, got),
                                   'after swap  %s\nexpected    %s\n(foreign    %s)' % (got.hex(), want.hex(), be.hex()))
                        elif int(r['ret']) not in rets:
                            greedy = greedy_prefix(ref, top) is not None
                            if greedy and int(r['ret']) == R.roundup(rets[0], ref.layout(top).align):
                                why = ('greedy-return-rounded-to-struct-alignment',
                                       'swap returned start+%s, the unlimited member is at start+%s' % (r['ret'], rets[0]))
                            else:
                                why = ('return|d=%+d|%s' % (int(r['ret']) - rets[0], 'greedy' if greedy else 'whole'),
                                       'swap returned start+%s, expected start+%s' % (r['ret'], rets))
                    if why:
                        site = raw_known_site(ref, top)
                        if site and not why[0].startswith('greedy-return'):
                            key = 'raw-swap|site=%s' % site
                        elif why[0].startswith('greedy-return'):
                            key = 'raw-swap|' + why[0]
                        else:
                            key = 'raw-swap|%s|%s' % (why[0], pyjudge._shape_key(ref, top, st) if not why[0].startswith('buffer') else '')
                        seen[key] = seen.get(key, 0) + 1
                        art = None
                        if seen[key] <= 2:
                            art = sse.artefact_for(st, top, ref, defs, v, '>', be, '', why[1])
                        out['viol'].append((key, art))
                    elif len(out['samples']) < 2 and len(be) > 8:
                        out['samples'].append({'state': st.key, 'foreign': be.hex(), 'native': want.hex(), 'ret': r['ret']})
            finally:
                shutil.rmtree(outdir, ignore_errors=True)
    except Exception:       # noqa
        out['harness_error'] = traceback.format_exc()
    return out


def replay_swap(art):
    defs = S.defs_from_json(art['defs'])
    ref = R.Ref(defs)
    res = T.compile_text(art['schema'], outs=('cpp',))
    if not res.ok:
        return 'prophyc rejects: %s' % res.exc
    try:
        exe, text = build_swap_driver(res.outdir, ref, defs, [art['top']])
        if exe is None:
            return 'generated raw code does not compile:\n%s' % text[:1200]
        v = V.tree_from_json(art['value'])
        be, want, rets, spans = expected_swap(ref, art['top'], v)
        r = run_swap(exe, [('0', art['top'], be)]).get('0')
        if r is None or 'crash' in r:
            return 'crash: %s' % (r or {}).get('crash', '')[-800:]
        got = bytes.fromhex(r['hex']) if r['hex'] != '-' else b''
        if r['under'] == '1' or r['over'] == '1' or got != want or int(r['ret']) not in rets:
            return 'schema:\n%s\nvalue %r\nforeign  %s\nafter    %s\nexpected %s\nreturned +%s expected +%s canaries %s/%s' % (
                art['schema'], v, be.hex(), got.hex(), want.hex(), r['ret'], rets, r['under'], r['over'])
        return None
    finally:
        shutil.rmtree(res.outdir, ignore_errors=True)
