"""Worked examples of docs/encoding.rst, transcribed once.  The oracle must
reproduce every one byte for byte, and the .rst must still contain the same
hex lines (so the transcription cannot drift from the documentation)."""
import os
import re

from . import schema as S
from . import refmodel as R

M = S.M

NESTED = S.Struct('Nested', [M('n1', 'u16'), M('n2', 'u16')])
NESTED2 = S.Struct('Nested', [M('n1', 'u16'), M('n2', 'u32'), M('n3', 'u16')])
TWOINTS = S.Struct('TwoInts', [M('a1', 'u16'), M('a2', 'u16')])

# (title, defs, top, value, [hex lines as printed in the rst])
EXAMPLES = [
    ('fixed array', [S.Struct('X', [M('x', 'u16', S.FIXED, 4)])], 'X', {'x': [1, 2, 3, 4]},
     ['01 00 02 00 03 00 04 00']),
    ('dynamic array', [S.Struct('X', [M('x', 'u16', S.DYNAMIC)])], 'X', {'x': [1, 2]},
     ['02 00 00 00 01 00 02 00']),
    ('limited array', [S.Struct('X', [M('x', 'u16', S.LIMITED, 4)])], 'X', {'x': [1, 2]},
     ['02 00 00 00 01 00 02 00 00 00 00 00']),
    ('greedy array', [S.Struct('X', [M('x', 'u16', S.GREEDY)])], 'X', {'x': [1, 2]},
     ['01 00 02 00']),
    ('optional set', [S.Struct('X', [M('x', 'u32', S.OPT)])], 'X', {'x': 1},
     ['01 00 00 00 01 00 00 00']),
    ('optional unset', [S.Struct('X', [M('x', 'u32', S.OPT)])], 'X', {'x': None},
     ['00 00 00 00 00 00 00 00']),
    ('struct', [NESTED, S.Struct('X', [M('x', 'Nested'), M('y', 'u32')])], 'X',
     {'x': {'n1': 1, 'n2': 2}, 'y': 3}, ['01 00 02 00 03 00 00 00']),
    ('union arm 0', [TWOINTS, S.Union('X', [S.Arm(0, 'u32', 'x'), S.Arm(1, 'TwoInts', 'y')])], 'X',
     ('x', 1), ['00 00 00 00 01 00 00 00']),
    ('union arm 1', [TWOINTS, S.Union('X', [S.Arm(0, 'u32', 'x'), S.Arm(1, 'TwoInts', 'y')])], 'X',
     ('y', {'a1': 2, 'a2': 3}), ['01 00 00 00 02 00 03 00']),
    ('integer padding', [S.Struct('X', [M('a', 'u8'), M('b', 'u16')])], 'X', {'a': 1, 'b': 2},
     ['01 [00] 02 00']),
    ('composite padding', [NESTED2, S.Struct('X', [M('x', 'u64'), M('y', 'u32'), M('z', 'u8'), M('n', 'Nested')])],
     'X', {'x': 1, 'y': 2, 'z': 3, 'n': {'n1': 4, 'n2': 5, 'n3': 6}},
     ['01  00  00  00  00  00  00  00', '02  00  00  00  03 [00  00  00]',
      '04  00 [00  00] 05  00  00  00', '06  00 [00  00][00  00  00  00]']),
    ('dynamic array padding 1', [S.Struct('X', [M('x', 'u8', S.DYNAMIC), M('y', 'u8', S.DYNAMIC)])], 'X',
     {'x': [1], 'y': [2, 3, 4]}, ['01 00 00 00 01 [00 00 00] 03 00 00 00 02 03 04 [00]']),
    ('dynamic array padding 2', [S.Struct('X', [M('x', 'u8', S.DYNAMIC), M('y', 'u8', S.DYNAMIC)])], 'X',
     {'x': [], 'y': [1, 2, 3, 4]}, ['00 00 00 00 04 00 00 00 01 02 03 04']),
    ('u64 dynamic array', [S.Struct('X', [M('x', 'u64', S.DYNAMIC)])], 'X', {'x': [1]},
     ['01 00 00 00 [00 00 00 00] 01 00 00 00 00 00 00 00']),
    ('u64 dynamic array empty', [S.Struct('X', [M('x', 'u64', S.DYNAMIC)])], 'X', {'x': []},
     ['00 00 00 00 [00 00 00 00]']),
    ('optional padding u8', [S.Struct('X', [M('x', 'u8', S.OPT), M('y', 'u8')])], 'X', {'x': 1, 'y': 2},
     ['01 00 00 00 01 02 [00 00]']),
    ('optional padding u64', [S.Struct('X', [M('x', 'u64', S.OPT)])], 'X', {'x': 1},
     ['01 00 00 00 [00 00 00 00] 01 00 00 00 00 00 00 00']),
    ('union padding u8', [S.Union('X', [S.Arm(1, 'u8', 'x')])], 'X', ('x', 2),
     ['01 00 00 00 02 [00 00 00]']),
    ('union padding u64 arm', [S.Union('X', [S.Arm(1, 'u64', 'x'), S.Arm(2, 'u8', 'y')])], 'X', ('x', 2),
     ['01 00 00 00 [00 00 00 00] 02 00 00 00 00 00 00 00']),
    ('union padding short arm', [S.Union('X', [S.Arm(1, 'u64', 'x'), S.Arm(2, 'u8', 'y')])], 'X', ('y', 3),
     ['02 00 00 00 [00 00 00 00] 03 [00 00 00 00 00 00 00]']),
    ('fields following dynamic fields',
     [S.Struct('X', [M('a', 'u8', S.DYNAMIC), M('b', 'u8'), M('c', 'u32'), M('d', 'u8', S.DYNAMIC),
                     M('e', 'u8'), M('f', 'u64')])], 'X',
     {'a': [1], 'b': 2, 'c': 3, 'd': [4], 'e': 5, 'f': 6},
     ['01  00  00  00  01 [00  00  00]', '02 [00  00  00] 03  00  00  00',
      '01  00  00  00  04 [00  00  00]', '05 [00  00  00  00  00  00  00]',
      '06  00  00  00  00  00  00  00']),
]

# The rst's externally-sized-array example prints 7 bytes ("02 04 05 00 06 00 07")
# for a message whose second u16 needs 2 bytes; it is a truncated print and is
# not used as an oracle anchor.  The numeric table is checked separately.
NUMERIC = [('u8', 42, '2a', '2a'), ('u16', 42, '2a 00', '00 2a'), ('u32', 42, '2a 00 00 00', '00 00 00 2a'),
           ('u64', 42, '2a 00 00 00 00 00 00 00', '00 00 00 00 00 00 00 2a'),
           ('float', 42.0, '00 00 28 42', '42 28 00 00'),
           ('double', 42.0, '00 00 00 00 00 00 45 40', '40 45 00 00 00 00 00 00')]


def _norm(s):
    return re.sub(r'\s+', ' ', s.replace('[', ' ').replace(']', ' ')).strip()


def selftest(repo):
    """Returns (number of examples reproduced, list of problems)."""
    problems = []
    path = os.path.join(repo, 'docs', 'encoding.rst')
    with open(path) as f:
        rst = f.read()
    rst_lines = set(_norm(line) for line in rst.splitlines())
    n = 0
    for title, defs, top, value, lines in EXAMPLES:
        ref = R.Ref(defs)
        data, spans = ref.encode(top, value, '<')
        want = bytes.fromhex(''.join(_norm(line) for line in lines).replace(' ', ''))
        if data != want:
            problems.append('oracle disagrees with doc example %r: %s vs %s' % (title, data.hex(), want.hex()))
        for line in lines:
            if _norm(line) not in rst_lines:
                problems.append('doc example %r: line %r no longer in encoding.rst' % (title, line))
        # brackets in the rst mark padding: the oracle's pad/fill spans must be exactly those bytes
        marked = set()
        off = 0
        for line in lines:
            inside = False
            for tok in re.findall(r'\[|\]|[0-9a-f]{2}', line):
                if tok == '[':
                    inside = True
                elif tok == ']':
                    inside = False
                else:
                    if inside:
                        marked.add(off)
                    off += 1
        padded = set()
        for sp in spans:
            if sp.role.startswith('pad') or sp.role.startswith('fill'):
                padded.update(range(sp.start, sp.start + sp.length))
        if marked and marked != padded:
            problems.append('doc example %r: padding bytes %s vs oracle %s' % (title, sorted(marked), sorted(padded)))
        try:
            back = ref.decode(top, data, '<')
            if back != value:
                problems.append('oracle decode(encode) != value for %r' % title)
        except R.RefError as e:
            problems.append('oracle cannot decode its own encoding of %r: %s' % (title, e))
        n += 1
    for t, v, le, be in NUMERIC:
        ref = R.Ref([S.Struct('X', [M('x', t)])])
        if ref.encode('X', {'x': v}, '<')[0].hex() != le.replace(' ', '') or \
                ref.encode('X', {'x': v}, '>')[0].hex() != be.replace(' ', ''):
            problems.append('numeric table mismatch for %s' % t)
        if ('%s' % le) not in rst or be not in rst:
            problems.append('numeric table line for %s no longer in encoding.rst' % t)
        n += 1
    return n, problems
