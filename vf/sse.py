"""Schema-state explorer, Python side: materialise batches of states as real
generated modules and hand every (state, value, byte order) to the judges."""
import os
import re
import shutil
import traceback

from . import schema as S
from . import refmodel as R
from . import universe as U
from . import values as V
from . import toolchain as T

BATCH = 120


def state_text(st, name='X'):
    """Self-contained prophy text of one state."""
    defs = list(st.helpers) + [U.materialize(st, name)]
    return S.render_prophy(defs), defs


class Prepared(object):
    """A batch compiled and imported."""

    def __init__(self, states, defs, tops, mod, nodes, ref, outdir):
        self.states, self.defs, self.tops, self.mod, self.nodes, self.ref, self.outdir = \
            states, defs, tops, mod, nodes, ref, outdir


def prepare(states, outs=('python',), keep_dir=False):
    """Compile a batch.  Returns (list of Prepared, rejected) where rejected is a
    list of (state, stage, message): bisection isolates states prophyc or the
    import refuses."""
    prepared, rejected = [], []

    def go(sts):
        defs, tops = U.batch_defs(sts)
        text = S.render_prophy(defs)
        res = T.compile_text(text, outs=outs)
        stage, msg = None, None
        mod = None
        if not res.ok:
            stage, msg = 'prophyc', '%s: %s' % (res.exc_type, str(res.exc)[:300])
        elif 'python' in outs:
            try:
                mod = T.import_generated(res.files['m.py'])
            except Exception as e:      # noqa
                stage, msg = 'import', '%s: %s' % (type(e).__name__, str(e)[:300])
        if stage:
            if not keep_dir:
                shutil.rmtree(res.outdir, ignore_errors=True)
            if len(sts) == 1:
                rejected.append((sts[0], stage, msg))
                return
            mid = len(sts) // 2
            go(sts[:mid])
            go(sts[mid:])
            return
        ref = R.Ref(defs)
        prepared.append(Prepared(sts, defs, tops, mod, res.nodes.get('m') if res.nodes else None, ref, res.outdir))
        if not keep_dir:
            shutil.rmtree(res.outdir, ignore_errors=True)

    go(list(states))
    return prepared, rejected


def model_nodes_by_name(nodes):
    out = {}
    for n in nodes or []:
        out[n.name] = n
    return out


# ---------------------------------------------------------------------------
# diagnosis of a byte mismatch in reference-model terms (class keys)
# ---------------------------------------------------------------------------

def type_class(ref, t):
    if t == 'bytes':
        return 'bytes'
    r = ref.resolve(t)
    if isinstance(r, str):
        return 's%d' % S.SCALARS[r][0]
    if isinstance(r, S.Enum):
        return 'enum'
    lay = ref.layout(t)
    kind = 'union' if isinstance(r, S.Union) else {0: 'fstruct', 1: 'dstruct', 2: 'ustruct'}[lay.kind]
    return '%s.a%d' % (kind, lay.align)


def member_class(ref, m):
    if m is None:
        return '-'
    return '%s(%s)' % (m.form, type_class(ref, m.type))


def span_at(spans, off):
    for sp in spans:
        if sp.start <= off < sp.start + sp.length:
            return sp
    return None


def owner_members(ref, top, path):
    """(member owning the path's first component, previous member, depth)."""
    r = ref.resolve(top)
    comps = [c for c in re.split(r'[.\[]', path) if c and not c.endswith(']')]
    if not isinstance(r, S.Struct) or not comps:
        return None, None, len(comps)
    name = comps[0].rstrip('?')
    if name.startswith('num_of_'):
        name = name[len('num_of_'):]
    prev = None
    for m in r.members:
        if m.name == name:
            return m, prev, len(comps)
        prev = m
    return None, None, len(comps)


def diagnose(ref, top, exp, spans, got):
    """Deterministic description of the first divergence between expected and
    observed bytes: span role, owning member class, previous member class, length delta."""
    n = min(len(exp), len(got))
    i = 0
    while i < n and exp[i] == got[i]:
        i += 1
    dlen = len(got) - len(exp)
    if i == len(exp):
        return 'at=end|dlen=%+d' % dlen
    sp = span_at(spans, i)
    m, prev, depth = owner_members(ref, top, sp.path if sp else '')
    role = sp.role if sp else '?'
    rel = 'start' if sp and sp.start == i else 'inside'
    r = ref.resolve(top)
    topk = 'union' if isinstance(r, S.Union) else 'struct'
    return 'top=%s|at=%s.%s|field=%s|prev=%s|depth=%d|dlen=%+d' % (
        topk, role, rel, member_class(ref, m), member_class(ref, prev), depth, dlen)


def nontrivial(spans):
    """rule: the encoding holds at least one padding/fill byte or a counted part."""
    for sp in spans:
        if sp.role.startswith('pad') or sp.role.startswith('fill') or sp.role == 'counter':
            return True
    return False


# ---------------------------------------------------------------------------
# abstract layout transitions (anti-vacuity, DESIGN 3.2)
# ---------------------------------------------------------------------------

def layout_transitions(ref, top):
    r = ref.resolve(top)
    out = set()
    if not isinstance(r, S.Struct):
        return out
    fields = ref.fields(top)
    off = 0
    for bi, block in enumerate(ref.blocks(fields)):
        if bi:
            off = R.roundup(off, max(f.align for f in block))
        for k, f in enumerate(block):
            rest = max(g.align for g in block[k:])
            out.add((off % 8, bi > 0, f.kind, f.mode, f.align, rest))
            off = R.roundup(off, f.align) + f.ssize
    return out


def artefact_for(st, top_name, ref, defs, value, endian, expected, got, detail):
    text, sdefs = state_text(st, 'X')
    return {
        'schema': text, 'defs': S.defs_to_json(sdefs), 'state': st.key, 'top': 'X',
        'value': V.tree_to_json(value), 'endian': endian,
        'expected': expected.hex() if isinstance(expected, (bytes, bytearray)) else expected,
        'got': got.hex() if isinstance(got, (bytes, bytearray)) else got,
        'detail': detail,
    }


def load_artefact(art):
    """Rebuild (ref, module, defs) from an artefact's schema text by going through
    prophyc again; the reference model is rebuilt from the recorded AST."""
    defs = S.defs_from_json(art['defs'])
    res = T.compile_text(art['schema'], outs=('python',))
    if not res.ok:
        return None, None, defs, res
    mod = T.import_generated(res.files['m.py'])
    shutil.rmtree(res.outdir, ignore_errors=True)
    return R.Ref(defs), mod, defs, res
