"""C18: text rendering universe (every order of bytes / integer / enum / composite members)
with values aimed at the printers: integers whose decimal and hex spellings differ,
bytes over both sides of every escape boundary."""
import itertools
import traceback

from . import schema as S
from . import refmodel as R
from . import universe as U
from . import values as V
from . import toolchain as T
from . import sse

BYTE_ALPHABET = [0x00, 0x09, 0x0a, 0x0d, 0x1f, 0x20, 0x25, 0x41, 0x5c, 0x7b, 0x7d, 0x7e, 0x7f, 0xff]
BYTE_STRINGS = [b'', b'A', b'\x00\t\n\r\x1f', b' A\\~\x7f\xff', bytes(bytearray(BYTE_ALPHABET)), b'plain text',
                b'100%', b'%s %d %%', b'{0} {x}']   # format directives of either language must come out verbatim
INTS = [10, 30, 255, 171]


def registry():
    reg = dict(U.BASE_HELPERS)
    reg['TN'] = S.Struct('TN', [S.M('b', 'bytes', S.DYNAMIC), S.M('x', 'u16')])
    reg['TF'] = S.Struct('TF', [S.M('p', 'u8'), S.M('q', 'E01')])
    reg['TU'] = S.Union('TU', [S.Arm(1, 'u8', 'n'), S.Arm(2, 'TF', 's'), S.Arm(5, 'E', 'e')])
    return reg


POOL = [('dynamic', 'bytes'), ('fixed', 'bytes', 3), ('plain', 'u8'), ('plain', 'i64'), ('plain', 'E'),
        ('plain', 'TN'), ('dynamic', 'u16'), ('opt', 'u8'), ('plain', 'TU'), ('limited', 'TF', 2), ('opt', 'TF')]


def text_states(tier):
    reg = registry()
    maxlen = 3 if tier == 'quick' else 4
    seen = set()
    # names with a role elsewhere in the same file: a struct whose array is sized by n0 / n1, then structs in which
    # n0 / n1 are ordinary members (they come first so that no batch boundary separates them)
    for seq in ((('ext', 'u16', 'u8'), ('plain', 'u8')), (('named', 'u8', 'n0'), ('dynamic', 'bytes')),
                (('plain', 'u8'), ('ext', 'bytes', 'u8')), (('named', 'u16', 'n1'), ('named', 'u8', 'n0')),
                (('plain', 'TN'), ('named', 'i64', 'n1'))):
        yield U.mk_state('struct', seq, reg)
    for n in range(1, maxlen + 1):
        for seq in itertools.permutations(POOL, n):
            # every state must contain a bytes member or a nested one, else it says nothing about order effects
            st = U.mk_state('struct', seq, reg)
            if st.key not in seen:
                seen.add(st.key)
                yield st
    # greedy tails and unions as top-level messages
    for tail in (('greedy', 'bytes'), ('greedy', 'u8'), ('greedy', 'TF')):
        for head in POOL[:6]:
            yield U.mk_state('struct', (head, tail), reg)
    yield U.mk_state('union', ((1, 'u8'), (2, 'TF'), (5, 'E')), reg)


class TextFiller(V.Filler):
    def __init__(self, k0):
        V.Filler.__init__(self, 'A')
        self.k = k0

    def scalar(self, t):
        k = self.k
        self.k += 1
        if t in S.FLOATS:
            return 1.5
        lo, hi = S.INT_RANGE[t]
        v = INTS[k % len(INTS)]
        if lo < 0 and k % 3 == 2:
            v = -v
        return max(lo, min(hi, v))

    def bytes_(self, n):
        k = self.k
        self.k += 1
        b = BYTE_STRINGS[k % len(BYTE_STRINGS)]
        return (b * (n // max(1, len(b)) + 1))[:n] if b else b'\x00' * n


def text_values(ref, top, tier):
    """Values of V(top) re-filled with printer-oriented scalars and bytes."""
    vg = V.Values(ref, tier)
    r = ref.resolve(top)
    out = []
    if isinstance(r, S.Union):
        for a in r.arms:
            for k0 in range(2):
                out.append((a.name, vg.make_type(a.type, vg.type_shapes(a.type)[0], TextFiller(k0))))
        return out
    dims = vg.dims(r.name)
    # bytes dimensions get explicit strings: lengths of BYTE_STRINGS
    rows = []
    width = max([len(s) for _, s in dims] + [1])
    for i in range(max(width, len(BYTE_STRINGS))):
        row = []
        for (names, shapes) in dims:
            f = [x for x in ref.fields(r.name) if x.name == names[0]][0]
            if f.kind == 'bytes' and f.mode in ('counted', 'greedy'):
                row.append(len(BYTE_STRINGS[i % len(BYTE_STRINGS)]))
            else:
                row.append(shapes[i % len(shapes)])
        rows.append(tuple(row))
    for i, row in enumerate(rows):
        fl = TextFiller(i)
        v = {}
        fields = {f.name: f for f in ref.fields(r.name)}
        for (names, _), shape in zip(dims, row):
            for name in names:
                f = fields[name]
                if f.kind == 'bytes' and f.mode in ('counted', 'greedy'):
                    v[name] = BYTE_STRINGS[i % len(BYTE_STRINGS)]
                    fl.k += 1
                else:
                    v[name] = vg.make_field(f, shape, fl)
        out.append(v)
    return V._dedupe(out)


def judge_batch(job):
    states, tier = job
    T.setup_repo()
    out = {'viol': [], 'states': 0, 'values': 0, 'nontrivial': 0, 'samples': [], 'rejected': []}
    try:
        prepared, rejected = sse.prepare(states)
        out['rejected'] = [(st.key, stage, msg) for st, stage, msg in rejected]
        for prep in prepared:
            ref = prep.ref
            for st, top in zip(prep.states, prep.tops):
                out['states'] += 1
                for v in text_values(ref, top, tier):
                    out['values'] += 1
                    want = ref.render(top, v)
                    try:
                        got = str(T.build(ref, top, v, getattr(prep.mod, top)()))
                    except Exception as ex:     # noqa
                        got = 'EXC %s: %s' % (type(ex).__name__, ex)
                    if "\\x" in want or "\\t" in want:
                        out['nontrivial'] += 1
                    if got != want:
                        from . import cppfull
                        key = 'py|str|' + cppfull.render_diff_key(want, got)
                        a = sse.artefact_for(st, top, ref, prep.defs, v, '<', b'', b'',
                                             'Python str():\n%s\nexpected:\n%s' % (got, want))
                        a['side'] = 'py'
                        out['viol'].append((key, a))
                    if len(out['samples']) < 2:
                        out['samples'].append({'state': st.key, 'text': want})
    except Exception:       # noqa
        out['harness_error'] = traceback.format_exc()
    return out


def run_text(ctx):
    from .run import HarnessError
    states = list(text_states(ctx.tier))
    for res in ctx.pmap(judge_batch, [(b, ctx.tier) for b in U.batches(states, 100)]):
        if 'harness_error' in res:
            raise HarnessError(res['harness_error'])
        ctx.cov['states'] += res['values']
        ctx.cov['transitions'] += res['values']
        ctx.cov['traces_validated_against_impl'] += res['values']
        ctx.cov['evaluations'] += res['values']
        ctx.cov['distinct_nontrivial'] += res['nontrivial']
        ctx.cov['text_schema_states'] = ctx.cov.get('text_schema_states', 0) + res['states']
        for s in res['samples']:
            ctx.sample(s)
        for key, a in res['viol']:
            ctx.violation_counts[key] = ctx.violation_counts.get(key, 0) + 1
            if len(ctx.violations.setdefault(key, [])) < 3:
                ctx.violations[key].append(a)
    ctx.cov['rule'] = ('text universe: every permutation of up to %d members drawn from bytes (dynamic, fixed), integers, enum, '
                       'nested struct, array, optional, union, limited composite array; values use integers whose decimal '
                       'and hex spellings differ and bytes over {00,09,0a,0d,1f,20,25,41,5c,7b,7d,7e,7f,ff} incl. format directives; str() of the real '
                       'message and print() of the compiled C++ message are compared with the reference renderer. '
                       'non-trivial = rendering contains an escaped byte.' % (3 if ctx.tier == 'quick' else 4))


def replay(art):
    ref, mod, defs, res = sse.load_artefact(art)
    if ref is None:
        return 'prophyc rejected the schema: %s' % res.exc
    v = V.tree_from_json(art['value'])
    want = ref.render(art['top'], v)
    got = str(T.build(ref, art['top'], v, getattr(mod, art['top'])()))
    if got != want:
        return 'schema:\n%s\nvalue %r\nstr():\n%s\nexpected:\n%s' % (art['schema'], v, got, want)
    return None
