"""Schema universe: the transition system explored by the schema-state explorer.

A state is a message definition (member sequence + helper types); the initial
states are the one-member structs; a transition appends one member symbol.
Symbols are tuples:
  (plain|opt|dynamic|greedy, T) (fixed|limited, T, n)
  (ext, T, sizer)         sizer member immediately before the array
  (extfar, T, sizer)      sizer member first in the struct
  (ext2, T1, T2, sizer)   two arrays sharing one sizer
"""
import hashlib
import itertools
from collections import namedtuple

from . import schema as S
from . import refmodel as R

State = namedtuple('State', 'key kind symbols helpers')   # kind: 'struct' | 'union'

E = S.Enum('E', [('E_A', 2), ('E_B', 5), ('E_C', '0x80000001')])
E01 = S.Enum('E01', [('E01_Z', 0), ('E01_O', 1), ('E01_T', 3)])
BASE_HELPERS = {'E': E, 'E01': E01}


def sym_text(sym):
    return '%s(%s)' % (sym[0], ','.join(str(x) for x in sym[1:]))


def expand(symbols):
    pre, members = [], []
    for i, sym in enumerate(symbols):
        form = sym[0]
        if form == 'ext':
            members += [S.M('n%d' % i, sym[2]), S.M('f%d' % i, sym[1], S.EXT, 'n%d' % i)]
        elif form == 'extfar':
            pre.append(S.M('n%d' % i, sym[2]))
            members.append(S.M('f%d' % i, sym[1], S.EXT, 'n%d' % i))
        elif form == 'extsplit':
            # sizer, then an unrelated dynamic array, then the array it sizes: sizer and array live in different parts
            members += [S.M('n%d' % i, sym[2]), S.M('w%d' % i, 'u8', S.DYNAMIC), S.M('f%d' % i, sym[1], S.EXT, 'n%d' % i)]
        elif form == 'ext2':
            members += [S.M('n%d' % i, sym[3]), S.M('f%d' % i, sym[1], S.EXT, 'n%d' % i),
                        S.M('g%d' % i, sym[2], S.EXT, 'n%d' % i)]
        elif form == 'named':
            # a plain member carrying a name of its own (e.g. the name another struct of the same file gives to a sizer)
            members.append(S.M(sym[2], sym[1]))
        else:
            members.append(S.M('f%d' % i, sym[1], form, sym[2] if len(sym) > 2 else None))
    return pre + members


def materialize(state, name):
    if state.kind == 'struct':
        return S.Struct(name, expand(state.symbols))
    return S.Union(name, [S.Arm(d, t, 'a%d' % i) for i, (d, t) in enumerate(state.symbols)])


def state_types(state):
    out = []
    for sym in state.symbols:
        if state.kind == 'union':
            out.append(sym[1])
        elif sym[0] == 'ext2':
            out += [sym[1], sym[2]]
        else:
            out.append(sym[1])
    return [t for t in out if t not in S.SCALARS and t != 'bytes']


def mk_state(kind, symbols, registry):
    symbols = tuple(symbols)
    key = kind[0] + ':' + ' '.join(sym_text(s) if kind == 'struct' else '%s:%s' % s for s in symbols)
    st = State(key, kind, symbols, None)
    helpers = S.closure(registry, state_types(st))
    return State(key, kind, symbols, tuple(helpers))


def is_last_only(sym, ref=None):
    if sym[0] == 'greedy':
        return True
    if ref is not None and sym[0] == 'plain' and sym[1] not in S.SCALARS:
        try:
            return ref.layout(sym[1]).kind == R.K_UNLIMITED
        except KeyError:
            return False
    return False


# ---------------------------------------------------------------------------
# level 1
# ---------------------------------------------------------------------------

def sigma_L():
    syms = []
    for t in ('u8', 'u16', 'u32', 'u64'):
        syms += [('plain', t), ('opt', t), ('fixed', t, 3), ('limited', t, 3), ('dynamic', t), ('ext', t, 'u8')]
    syms += [('fixed', 'u8', 1), ('limited', 'u8', 1)]
    syms += [('plain', 'E'), ('opt', 'E'), ('dynamic', 'E')]
    syms += [('fixed', 'bytes', 3), ('limited', 'bytes', 3), ('dynamic', 'bytes'), ('ext', 'bytes', 'u16')]
    last = [('greedy', 'u8'), ('greedy', 'u16'), ('greedy', 'u32'), ('greedy', 'u64'), ('greedy', 'E'),
            ('greedy', 'bytes')]
    return syms, last


def core16():
    return [('plain', 'u8'), ('plain', 'u16'), ('plain', 'u32'), ('plain', 'u64'),
            ('opt', 'u8'), ('opt', 'u16'), ('opt', 'u64'),
            ('fixed', 'u8', 3), ('limited', 'u8', 3), ('limited', 'u16', 3),
            ('dynamic', 'u8'), ('dynamic', 'u16'), ('dynamic', 'u64'),
            ('ext', 'u8', 'u8'), ('plain', 'E'), ('dynamic', 'bytes')]


def sequences(syms, last, maxlen):
    """All member sequences up to maxlen; last-only symbols only in last position."""
    for n in range(1, maxlen + 1):
        for seq in itertools.product(syms, repeat=n - 1):
            for tail in syms + last:
                yield seq + (tail,)


def core24():
    return core16() + [('opt', 'u32'), ('fixed', 'u16', 3), ('limited', 'u64', 3), ('dynamic', 'u32'), ('ext', 'u16', 'u8'),
                       ('opt', 'E'), ('limited', 'bytes', 3), ('fixed', 'u8', 1)]


def level1(tier, cpp=False):
    syms, last = sigma_L()
    reg = dict(BASE_HELPERS)
    seen = set()
    if tier == 'thorough' and cpp:
        # compiled universes: every sequence <= 2 over the full alphabet, length 3 over a 24-symbol core
        core = core24()
        corelast = [('greedy', 'u8'), ('greedy', 'u16'), ('greedy', 'u64'), ('greedy', 'bytes'), ('greedy', 'E')]
        gens = [sequences(syms, last, 2), (s for s in sequences(core, corelast, 3) if len(s) == 3)]
    elif tier == 'thorough':
        gens = [sequences(syms, last, 3)]
    else:
        core = core16()
        corelast = [('greedy', 'u8'), ('greedy', 'u32'), ('greedy', 'bytes')]
        gens = [sequences(syms, last, 2), (s for s in sequences(core, corelast, 3) if len(s) == 3)]
    for g in gens:
        for seq in g:
            st = mk_state('struct', seq, reg)
            if st.key not in seen:
                seen.add(st.key)
                yield st


# ---------------------------------------------------------------------------
# codec cells: every scalar type x form (alone and after a u8)
# ---------------------------------------------------------------------------

def codec_cells():
    reg = dict(BASE_HELPERS)
    reg['F1'] = S.Struct('F1', [S.M('a', 'u8'), S.M('b', 'u16')])
    reg['D1'] = S.Struct('D1', [S.M('a', 'u16'), S.M('b', 'u8', S.DYNAMIC)])
    reg['U1'] = S.Union('U1', [S.Arm(1, 'u8', 'x'), S.Arm(2, 'u32', 'y'), S.Arm(7, 'F1', 'z')])
    types = list(S.SCALARS) + ['E', 'E01', 'F1', 'U1', 'D1']
    out = []
    for t in types:
        forms = [('plain', t), ('dynamic', t), ('ext', t, 'u32'), ('ext', t, 'i32'), ('ext', t, 'u16'),
                 ('greedy', t)]
        if t != 'D1':
            forms += [('opt', t), ('fixed', t, 2), ('limited', t, 2)]
        for f in forms:
            out.append(mk_state('struct', (f,), reg))
            out.append(mk_state('struct', (('plain', 'u8'), f), reg))
    # bytes in every form, and every sizer type (signed ones included) for bytes and arrays,
    # alone / after a u8 / followed by a wider field
    extra = [('fixed', 'bytes', 2), ('limited', 'bytes', 2), ('dynamic', 'bytes'), ('greedy', 'bytes')]
    for sz in ('u8', 'i8', 'u16', 'i16', 'i32', 'u64', 'i64'):
        extra += [('ext', 'bytes', sz), ('ext', 'u16', sz)]
    for t in ('u8', 'u16', 'F1', 'bytes'):
        f = ('extsplit', t, 'u8')
        out.append(mk_state('struct', (f,), reg))
        out.append(mk_state('struct', (('dynamic', 'u8'), f), reg))
        out.append(mk_state('struct', (('dynamic', 'u16'), f, ('plain', 'u32')), reg))
    for f in extra:
        out.append(mk_state('struct', (f,), reg))
        out.append(mk_state('struct', (('plain', 'u8'), f), reg))
        if f[0] != 'greedy':
            out.append(mk_state('struct', (f, ('plain', 'u32')), reg))
    return out


# ---------------------------------------------------------------------------
# composites for level 2 / 3
# ---------------------------------------------------------------------------

def signature(ref, name):
    """Over-fine abstraction of how a parent can see a composite (DESIGN 3.2)."""
    d = ref.resolve(name)
    lay = ref.layout(name)
    if isinstance(d, S.Union):
        arms = [ref.layout(a.type) for a in d.arms]
        big = max(a.size for a in arms)
        wide = max(a.align for a in arms)
        return ('union', lay.size, lay.align, big % 8, wide,
                tuple(sorted(set((a.align, a.size % 8) for a in arms))),
                any(isinstance(ref.resolve(a.type), S.Struct) for a in d.arms),
                any(isinstance(ref.resolve(a.type), S.Enum) for a in d.arms))
    fields = ref.fields(name)
    forms = tuple(sorted(set((f.kind, f.mode) for f in fields)))
    sizes = tuple(sorted(set(f.align for f in fields)))
    blocks = tuple(max(f.align for f in b) for b in ref.blocks(fields))
    raw = sum(0 for _ in fields)
    off = 0
    for f in fields:
        off = R.roundup(off, f.align) + f.ssize
    tailpad = lay.size - off if lay.kind == R.K_FIXED else -1
    cpp8 = lay.align == 8 or any(f.kind in ('array', 'bytes') and f.mode != 'fixed' for f in fields)
    first = (fields[0].kind, fields[0].mode)
    lastf = (fields[-1].kind, fields[-1].mode)
    return ('struct', lay.size, lay.align, lay.kind, lay.size % 8, tailpad, first, lastf, forms, sizes, blocks, cpp8)


def coarse_signature(sig):
    if sig[0] == 'union':
        return sig[:5]
    (_, size, align, kind, size8, tailpad, first, lastf, forms, sizes, blocks, cpp8) = sig
    return ('struct', align, kind, size8, tailpad > 0, lastf, cpp8, len(blocks) > 1)


def composite_pool(tier, seed=0, coarse=False):
    """Composite helper types used as element types of level-2 members.
    Returns registry name->def including base helpers; every composite has a
    canonical name derived from its definition text."""
    reg = dict(BASE_HELPERS)
    # level-1 structs of length <=2 over sigma_L (+ greedy tails)
    syms, last = sigma_L()
    cands = []
    for seq in sequences(syms, last, 2):
        cands.append(seq)
    by_sig = {}
    order = []
    for seq in cands:
        d = S.Struct('T', expand(seq))
        ref = R.Ref(list(BASE_HELPERS.values()) + [d])
        sig = signature(ref, 'T')
        if coarse:
            sig = coarse_signature(sig)
        if sig not in by_sig:
            by_sig[sig] = []
            order.append(sig)
        by_sig[sig].append(seq)
    chosen = []
    for sig in order:
        group = by_sig[sig]
        if tier == 'thorough' and len(group) > 1:
            picks = [group[0], group[(seed + 1) % len(group)]]
        else:
            picks = [group[seed % len(group)]]
        for seq in picks:
            if seq not in chosen:
                chosen.append(seq)
    names = []
    for seq in chosen:
        text = ' '.join(sym_text(s) for s in seq)
        name = 'C' + hashlib.sha1(text.encode()).hexdigest()[:8]
        reg[name] = S.Struct(name, expand(seq))
        names.append(name)
    # unions: arms over (alignment class x size class)
    arm_types = ['u8', 'u16', 'u32', 'u64', 'E']
    fixed_structs = []
    ref_all = R.Ref(list(reg.values()))
    for n in names:
        lay = ref_all.layout(n)
        if lay.kind == R.K_FIXED:
            fixed_structs.append(n)
    # a few fixed structs of distinct (align, size%8, size>8)
    seen = set()
    fs = []
    for n in fixed_structs:
        lay = ref_all.layout(n)
        k = (lay.align, lay.size % 8, lay.size > 8)
        if k not in seen:
            seen.add(k)
            fs.append(n)
    unames = []
    arm_pool = arm_types + fs
    for n in (1, 2):
        for combo in itertools.combinations(arm_pool, n):
            uname = 'U' + hashlib.sha1(' '.join(combo).encode()).hexdigest()[:8]
            reg[uname] = S.Union(uname, [S.Arm(i * 3 + 1, t, 'a%d' % i) for i, t in enumerate(combo)])
            unames.append(uname)
    # dedupe unions by signature
    ref_all = R.Ref(list(reg.values()))
    seen = {}
    keep = []
    for u in unames:
        sig = signature(ref_all, u)
        if coarse:
            sig = coarse_signature(sig)
        if sig in seen and tier != 'thorough':
            del reg[u]
            continue
        if sig in seen and tier == 'thorough' and seen[sig] >= 2:
            del reg[u]
            continue
        seen[sig] = seen.get(sig, 0) + 1
        keep.append(u)
    # typedef aliases
    reg['TU16'] = S.Typedef('TU16', 'u16')
    reg['TTU16'] = S.Typedef('TTU16', 'TU16')
    reg['TE'] = S.Typedef('TE', 'E')
    return reg, names, keep


def composite_symbols(ref, name):
    """All member forms a composite type may appear in, by its stiffness."""
    lay = ref.layout(name)
    if lay.kind == R.K_FIXED:
        return [('plain', name), ('opt', name), ('fixed', name, 2), ('limited', name, 2), ('dynamic', name),
                ('ext', name, 'u8')], [('greedy', name)]
    if lay.kind == R.K_DYNAMIC:
        return [('plain', name), ('dynamic', name), ('ext', name, 'u16')], [('greedy', name)]
    return [], [('plain', name)]


SPACERS = [('plain', 'u8'), ('plain', 'u16'), ('plain', 'u64'), ('dynamic', 'u8')]
SPACERS_COARSE = [('plain', 'u8'), ('dynamic', 'u8')]


def level2(tier, seed=0, coarse=False):
    reg, snames, unames = composite_pool(tier, seed, coarse)
    ref = R.Ref(list(reg.values()))
    seen = set()
    alias = [('plain', 'TU16'), ('opt', 'TTU16'), ('dynamic', 'TTU16'), ('plain', 'TE'), ('fixed', 'TE', 2)]
    for name in snames + unames:
        mid, last = composite_symbols(ref, name)
        for c in mid + last:
            seqs = [(c,)]
            for sp in (SPACERS if not (coarse and tier == 'quick') else SPACERS_COARSE):
                seqs.append((sp, c))
                if c in mid:
                    seqs.append((c, sp))
            if c in last:
                # an unlimited tail inside a more strictly aligned parent
                seqs.append((('plain', 'u64'), c))
                seqs.append((('plain', 'u32'), c))
            if tier == 'thorough':
                tri = SPACERS if not coarse else SPACERS_COARSE + [('plain', 'u64')]
                for a in tri:
                    for b in tri:
                        seqs.append((a, b, c))
                        if c in mid:
                            seqs.append((a, c, b))
                            seqs.append((c, a, b))
            else:
                seqs.append((('plain', 'u8'), ('dynamic', 'u8'), c))
                if c in mid:
                    seqs.append((('plain', 'u8'), c, ('plain', 'u64')))
                    seqs.append((c, ('dynamic', 'u8'), ('plain', 'u16')))
                    ends_block = c[0] in ('dynamic', 'ext') or (c[0] == 'plain' and ref.layout(name).kind != R.K_FIXED)
                    if ends_block:
                        # a block after c whose first field is less aligned than a later one
                        seqs.append((c, ('plain', 'u8'), ('plain', 'u64')))
                        seqs.append((c, ('plain', 'u16'), ('plain', 'u32')))
                        seqs.append((c, ('plain', 'u8'), ('opt', 'u16')))
            for seq in seqs:
                st = mk_state('struct', seq, reg)
                if st.key not in seen:
                    seen.add(st.key)
                    yield st
    for seq in [(a,) for a in alias] + [(('plain', 'u8'), a) for a in alias]:
        st = mk_state('struct', seq, reg)
        if st.key not in seen:
            seen.add(st.key)
            yield st
    # unions as messages of their own
    for u in unames:
        d = reg[u]
        st = mk_state('union', tuple((a.disc, a.type) for a in d.arms), reg)
        if st.key not in seen:
            seen.add(st.key)
            yield st


def level3(tier, seed=0, coarse=False):
    """Templates: dynamic struct inside dynamic array of dynamic structs, typedef
    chains, union inside optional inside struct inside array."""
    reg, snames, unames = composite_pool('quick', seed, coarse)
    ref = R.Ref(list(reg.values()))
    dyn = [n for n in snames if ref.layout(n).kind == R.K_DYNAMIC]
    fix = [n for n in snames if ref.layout(n).kind == R.K_FIXED]
    unl = [n for n in snames if ref.layout(n).kind == R.K_UNLIMITED]
    step_d = max(1, len(dyn) // (12 if tier == 'thorough' else 5))
    step_f = max(1, len(fix) // (12 if tier == 'thorough' else 5))
    mids = []
    k = 0
    for d in dyn[seed % step_d::step_d]:
        for form in (('dynamic', d), ('plain', d), ('ext', d, 'u8')):
            name = 'L2_%d' % k
            k += 1
            reg[name] = S.Struct(name, expand((('plain', 'u16'), form, ('plain', 'u8'))))
            mids.append(name)
    for u in unames[seed % 3::3][:8]:
        name = 'L2_%d' % k
        k += 1
        reg[name] = S.Struct(name, expand((('opt', u), ('plain', 'u8'))))
        mids.append(name)
    for f in fix[seed % step_f::step_f]:
        name = 'L2_%d' % k
        k += 1
        reg[name] = S.Struct(name, expand((('plain', 'u8'), ('limited', f, 2), ('opt', f))))
        mids.append(name)
    for i, f in enumerate(fix[:4] + dyn[:4] + unames[:2]):
        reg['TD%d' % i] = S.Typedef('TD%d' % i, f)
        reg['TTD%d' % i] = S.Typedef('TTD%d' % i, 'TD%d' % i)
        mids.append('TTD%d' % i)
    # typedefs (one and two levels) of a struct that is dynamic only through a nested dynamic struct
    for j, d in enumerate(dyn[:2]):
        nest = 'NEST%d' % j
        reg[nest] = S.Struct(nest, expand((('plain', 'u16'), ('plain', d), ('plain', 'u8'))))
        reg['TN%d' % j] = S.Typedef('TN%d' % j, nest)
        reg['TTN%d' % j] = S.Typedef('TTN%d' % j, 'TN%d' % j)
        mids += ['TN%d' % j, 'TTN%d' % j]
    for u in unl[:3]:
        name = 'L2_%d' % k
        k += 1
        reg[name] = S.Struct(name, expand((('dynamic', 'u16'), ('plain', u))))
        mids.append(name)
    ref = R.Ref(list(reg.values()))
    seen = set()
    for m in mids:
        mid, last = composite_symbols(ref, m)
        for c in mid + last:
            for seq in [(c,), (('plain', 'u8'), c), (('dynamic', 'u8'), c)] + \
                    ([(c, ('plain', 'u64')), (c, ('dynamic', 'u16'), ('plain', 'u8'))] if c in mid else []):
                st = mk_state('struct', seq, reg)
                if st.key not in seen:
                    seen.add(st.key)
                    yield st


def two_dynamic_parts(tier, seed=0, coarse=False):
    """Structs with two dynamic fields and a fixed block after each: dyn A, x, dyn B, y.  The alignment of the block
    after A must not leak into / from the block after B (the blocks have different greatest alignments)."""
    reg = dict(BASE_HELPERS)
    reg['DY1'] = S.Struct('DY1', [S.M('x', 'u8', S.DYNAMIC)])
    reg['DY2'] = S.Struct('DY2', [S.M('h', 'u16'), S.M('x', 'u16', S.DYNAMIC)])
    reg['DY8'] = S.Struct('DY8', [S.M('x', 'u8', S.DYNAMIC), S.M('t', 'u64')])
    reg['DYD'] = S.Struct('DYD', [S.M('d', 'DY1'), S.M('t', 'u8')])
    dyn = [('plain', 'DY1'), ('plain', 'DY2'), ('dynamic', 'u8'), ('dynamic', 'bytes'), ('plain', 'DY8'), ('plain', 'DYD'),
           ('dynamic', 'u16'), ('ext', 'u8', 'u8'), ('dynamic', 'DY1')]
    if coarse and tier == 'quick':
        dyn = dyn[:4]
    elif tier == 'quick':
        dyn = dyn[:6]
    blocks = [(('plain', 'u8'), ('plain', 'u16')), (('plain', 'u8'), ('plain', 'u32')), (('plain', 'u8'), ('plain', 'u64')),
              (('plain', 'u16'), ('plain', 'u64')), (('plain', 'u32'), ('plain', 'u64')), (('plain', 'u64'), ('plain', 'u8')),
              (('plain', 'u32'), ('plain', 'u16')), (('plain', 'u8'), ('opt', 'u8')), (('opt', 'u16'), ('plain', 'u64')),
              (('plain', 'u8'), ('plain', 'u8'))]
    for a in dyn:
        for b in dyn:
            for x, y in blocks:
                yield mk_state('struct', (a, x, b, y), reg)
    if tier == 'thorough':
        # three dynamic parts
        for a in dyn[:4]:
            for x, y, z in ((('plain', 'u8'), ('plain', 'u32'), ('plain', 'u64')), (('plain', 'u64'), ('plain', 'u16'), ('plain', 'u8')),
                            (('plain', 'u16'), ('plain', 'u64'), ('plain', 'u32'))):
                for b in dyn[:4]:
                    yield mk_state('struct', (a, x, b, y, a, z), reg)


def all_states(tier, seed=0, levels=(1, 2, 3), cells=True, coarse=False):
    seen = set()
    gens = []
    if cells:
        gens.append(codec_cells())
    if 1 in levels:
        gens.append(level1(tier, cpp=coarse))
    if 2 in levels:
        gens.append(level2(tier, seed, coarse))
    if 3 in levels:
        gens.append(level3(tier, seed, coarse))
        gens.append(two_dynamic_parts(tier, seed, coarse))
    for g in gens:
        for st in g:
            if st.key not in seen:
                seen.add(st.key)
                yield st


def batches(states, size):
    batch = []
    for st in states:
        batch.append(st)
        if len(batch) >= size:
            yield batch
            batch = []
    if batch:
        yield batch


def batch_defs(batch, prefix='S'):
    """Definitions of a batch: helper closure (deduped by name) + one top per state.
    Returns (defs, [top names])."""
    helpers = {}
    order = []
    for st in batch:
        for d in st.helpers:
            if d.name not in helpers:
                helpers[d.name] = d
                order.append(d.name)
    # a valid order: closure() per state is dependency ordered, but merged order
    # must be as well: re-close over everything
    defs = S.closure(helpers, order)
    tops = []
    for i, st in enumerate(batch):
        name = '%s%d' % (prefix, i)
        tops.append(name)
        defs.append(materialize(st, name))
    return defs, tops
