"""Replay one recorded violation without any explorer:
   python -m vf.replay replays/<id>/<hash>.json
Exit 1 if the violation reproduces (prints why), 0 if not, 3 if the check has no replayer."""
import importlib
import json
import os
import sys


def main(argv=None):
    argv = argv or sys.argv[1:]
    path = argv[0]
    with open(path) as f:
        body = json.load(f)
    pid = body['property']
    os.environ.setdefault('PYTHONHASHSEED', '0')
    from . import toolchain
    toolchain.setup_repo()
    mod = importlib.import_module('vf.checks.' + pid)
    if not hasattr(mod, 'replay'):
        print('no replayer for %s' % pid)
        return 3
    res = mod.replay(body['artefact'])
    if res:
        print('REPRODUCED property=%s key=%s' % (pid, body['key']))
        print(res if isinstance(res, str) else json.dumps(res, indent=1, default=str))
        return 1
    print('not reproduced')
    return 0


if __name__ == '__main__':
    sys.exit(main())
